//! Counting global allocator: bytes and allocation count, for C01's "no unbounded memory growth".
//! Not installed under Miri.

use std::alloc::{GlobalAlloc, Layout, System};
use std::sync::atomic::{AtomicU64, Ordering};

pub struct Counting;

static BYTES: AtomicU64 = AtomicU64::new(0);
static ALLOCS: AtomicU64 = AtomicU64::new(0);

unsafe impl GlobalAlloc for Counting {
    unsafe fn alloc(&self, layout: Layout) -> *mut u8 {
        BYTES.fetch_add(layout.size() as u64, Ordering::Relaxed);
        ALLOCS.fetch_add(1, Ordering::Relaxed);
        System.alloc(layout)
    }
    unsafe fn dealloc(&self, ptr: *mut u8, layout: Layout) {
        System.dealloc(ptr, layout)
    }
    unsafe fn realloc(&self, ptr: *mut u8, layout: Layout, new_size: usize) -> *mut u8 {
        if new_size > layout.size() {
            BYTES.fetch_add((new_size - layout.size()) as u64, Ordering::Relaxed);
        }
        ALLOCS.fetch_add(1, Ordering::Relaxed);
        System.realloc(ptr, layout, new_size)
    }
}

/// (bytes ever allocated, number of allocations) so far.
pub fn snapshot() -> (u64, u64) {
    (BYTES.load(Ordering::Relaxed), ALLOCS.load(Ordering::Relaxed))
}

//! Worker framework: case streams, observation record, panic capture, journaling.

use std::cell::RefCell;
use std::collections::{BTreeMap, HashSet};
use std::fs::File;
use std::io::{BufWriter, Write};
use std::panic::{self, AssertUnwindSafe};

#[derive(Clone, Copy, PartialEq, Eq, Debug)]
pub enum Tier {
    Quick,
    Thorough,
}

impl Tier {
    pub fn pick<T>(self, q: T, t: T) -> T {
        match self {
            Tier::Quick => q,
            Tier::Thorough => t,
        }
    }
}

/// One indexed, deterministic stream of cases. `gen(i)` is a pure function.
pub struct Stream {
    pub name: String,
    pub count: u64,
    /// True when the stream enumerates a finite space completely.
    pub exhaustive: bool,
    pub gen: Box<dyn Fn(u64) -> String>,
}

impl Stream {
    pub fn new(name: &str, count: u64, exhaustive: bool, gen: impl Fn(u64) -> String + 'static) -> Stream {
        Stream {
            name: name.to_string(),
            count,
            exhaustive,
            gen: Box::new(gen),
        }
    }
}

#[derive(Clone, Debug)]
pub struct Violation {
    pub cell: String,
    pub detail: String,
}

/// What a monitor observed for one case (cleared per case) plus run-wide histograms.
#[derive(Default)]
pub struct Obs {
    pub violations: Vec<Violation>,
    pub inconclusive: Option<String>,
    /// Scratch hasher for the fingerprint of what is being observed.
    pub fp: Fnv,
    /// One record per elementary input executed in this case: (fingerprint, non-trivial).
    pub records: Vec<(u64, bool)>,
    /// Short human-readable description of what was observed (used for samples).
    pub note: String,
    // ---- run-wide accumulators ----
    pub counts: BTreeMap<String, u64>,
    pub classes: HashSet<String>,
    pub maxima: BTreeMap<String, u64>,
}

impl Obs {
    pub fn clear_case(&mut self) {
        self.violations.clear();
        self.inconclusive = None;
        self.fp = Fnv::new();
        self.records.clear();
        self.note.clear();
    }
    /// Close the observation of one elementary input: record its fingerprint.
    pub fn done(&mut self, nontrivial: bool) {
        let fp = self.fp.0;
        self.records.push((fp, nontrivial));
        self.fp = Fnv::new();
    }
    pub fn violate(&mut self, cell: impl Into<String>, detail: impl Into<String>) {
        self.violations.push(Violation {
            cell: cell.into(),
            detail: detail.into(),
        });
    }
    pub fn inconclusive(&mut self, reason: impl Into<String>) {
        if self.inconclusive.is_none() {
            self.inconclusive = Some(reason.into());
        }
    }
    pub fn count(&mut self, key: &str) {
        self.count_n(key, 1);
    }
    pub fn count_n(&mut self, key: &str, n: u64) {
        if let Some(v) = self.counts.get_mut(key) {
            *v += n;
        } else {
            self.counts.insert(key.to_string(), n);
        }
    }
    pub fn class(&mut self, key: &str) {
        if !self.classes.contains(key) {
            self.classes.insert(key.to_string());
        }
    }
    pub fn maximum(&mut self, key: &str, v: u64) {
        match self.maxima.get_mut(key) {
            Some(m) => {
                if v > *m {
                    *m = v
                }
            }
            None => {
                self.maxima.insert(key.to_string(), v);
            }
        }
    }
}

pub trait Property {
    fn id(&self) -> &'static str;
    /// How cases are generated and what makes one non-trivial (goes into the evidence file).
    fn rule(&self) -> &'static str;
    fn streams(&self, tier: Tier, seed: u64) -> Vec<Stream>;
    /// Run the monitor(s) of this property on one case.
    fn check(&self, input: &str, obs: &mut Obs);
    /// Observation classes that a run must have reached to be conclusive.
    fn mandatory_classes(&self, _tier: Tier) -> Vec<&'static str> {
        vec![]
    }
}

// ---------------------------------------------------------------- hashing

#[derive(Clone, Copy)]
pub struct Fnv(pub u64);

impl Default for Fnv {
    fn default() -> Self {
        Fnv::new()
    }
}

impl Fnv {
    pub fn new() -> Fnv {
        Fnv(0xcbf2_9ce4_8422_2325)
    }
    pub fn bytes(&mut self, b: &[u8]) {
        for x in b {
            self.0 ^= *x as u64;
            self.0 = self.0.wrapping_mul(0x0000_0100_0000_01B3);
        }
    }
    pub fn str(&mut self, s: &str) {
        self.bytes(s.as_bytes());
        self.bytes(&[0xff]);
    }
    pub fn u64(&mut self, x: u64) {
        self.bytes(&x.to_le_bytes());
    }
}

// ---------------------------------------------------------------- JSON

pub fn jstr(s: &str) -> String {
    let mut o = String::with_capacity(s.len() + 2);
    o.push('"');
    for c in s.chars() {
        match c {
            '"' => o.push_str("\\\""),
            '\\' => o.push_str("\\\\"),
            '\n' => o.push_str("\\n"),
            '\r' => o.push_str("\\r"),
            '\t' => o.push_str("\\t"),
            c if (c as u32) < 0x20 || c == '\u{2028}' || c == '\u{2029}' || c == '\u{7f}' => {
                o.push_str(&format!("\\u{:04x}", c as u32))
            }
            c => o.push(c),
        }
    }
    o.push('"');
    o
}

pub fn truncate(s: &str, max: usize) -> String {
    if s.len() <= max {
        return s.to_string();
    }
    let mut end = max;
    while !s.is_char_boundary(end) {
        end -= 1;
    }
    format!("{}…[{} bytes]", &s[..end], s.len())
}

// ---------------------------------------------------------------- panic capture

#[derive(Clone, Debug)]
pub struct PanicInfo {
    pub file: String,
    pub line: u32,
    pub msg: String,
}

thread_local! {
    static LAST_PANIC: RefCell<Option<PanicInfo>> = const { RefCell::new(None) };
}

pub fn install_panic_hook() {
    panic::set_hook(Box::new(|info| {
        let (file, line) = match info.location() {
            Some(l) => (l.file().to_string(), l.line()),
            None => ("?".to_string(), 0),
        };
        let msg = if let Some(s) = info.payload().downcast_ref::<&str>() {
            s.to_string()
        } else if let Some(s) = info.payload().downcast_ref::<String>() {
            s.clone()
        } else {
            "<non-string panic payload>".to_string()
        };
        LAST_PANIC.with(|p| *p.borrow_mut() = Some(PanicInfo { file, line, msg }));
    }));
}

/// Run `f` (code of the system under observation); a panic is captured with its site.
pub fn guard<T>(f: impl FnOnce() -> T) -> Result<T, PanicInfo> {
    LAST_PANIC.with(|p| *p.borrow_mut() = None);
    match panic::catch_unwind(AssertUnwindSafe(f)) {
        Ok(v) => Ok(v),
        Err(_) => Err(LAST_PANIC
            .with(|p| p.borrow_mut().take())
            .unwrap_or(PanicInfo {
                file: "?".into(),
                line: 0,
                msg: "?".into(),
            })),
    }
}

impl PanicInfo {
    pub fn in_repo(&self) -> bool {
        self.file.starts_with("/repo/") || self.file.starts_with("crates/")
    }

    /// A site signature that survives unrelated edits: file name, the trimmed source
    /// text of the panicking line, and the message with numbers normalised.
    pub fn site(&self) -> String {
        let base = self.file.rsplit('/').next().unwrap_or("?").to_string();
        let line_text = std::fs::read_to_string(&self.file)
            .ok()
            .and_then(|s| {
                s.lines()
                    .nth(self.line.saturating_sub(1) as usize)
                    .map(|l| l.trim().to_string())
            })
            .unwrap_or_default();
        let mut msg = String::new();
        let mut in_num = false;
        // Quoted payloads (`…`, '…') vary from input to input: keep only the fixed text.
        let mut stripped = String::new();
        let mut quote: Option<char> = None;
        for c in self.msg.chars() {
            match quote {
                Some(q) if c == q => {
                    quote = None;
                    stripped.push(c);
                }
                Some(_) => {}
                None => {
                    if c == '`' || c == '\'' {
                        quote = Some(c);
                    }
                    stripped.push(c);
                }
            }
        }
        for c in stripped.chars() {
            if c.is_ascii_digit() {
                if !in_num {
                    msg.push('N');
                }
                in_num = true;
            } else {
                in_num = false;
                msg.push(if c == '\n' { ' ' } else { c });
            }
        }
        let msg = truncate(&msg, 90);
        let line_text = truncate(&line_text, 90);
        format!("panic@{base}:`{line_text}`:{msg}")
    }
}

// ---------------------------------------------------------------- per-case watchdog

use std::sync::atomic::{AtomicU64, Ordering};

static CASE_START_MS: AtomicU64 = AtomicU64::new(0);
static CASE_G: AtomicU64 = AtomicU64::new(0);

fn now_ms() -> u64 {
    std::time::SystemTime::now().duration_since(std::time::UNIX_EPOCH).map(|d| d.as_millis() as u64).unwrap_or(0)
}

/// A case that runs far longer than any terminating case is journaled as `hang` and the
/// worker exits with code 97; the supervisor confirms it by replaying the case alone.
pub fn start_watchdog(log_path: String) {
    // Under the interpreter a terminating case takes seconds to minutes; the supervisor's
    // wall-clock watchdog bounds those runs instead.
    if cfg!(miri) {
        return;
    }
    let limit_ms: u64 = std::env::var("OQ3_CASE_TIMEOUT_S").ok().and_then(|v| v.parse().ok()).unwrap_or(20) * 1000;
    std::thread::spawn(move || loop {
        std::thread::sleep(std::time::Duration::from_millis(250));
        let st = CASE_START_MS.load(Ordering::Relaxed);
        if st != 0 && now_ms().saturating_sub(st) > limit_ms {
            let g = CASE_G.load(Ordering::Relaxed);
            if let Ok(mut f) = std::fs::OpenOptions::new().create(true).append(true).open(&log_path) {
                let _ = writeln!(f, "\n{{\"t\":\"hang\",\"g\":{g}}}");
            }
            std::process::exit(97);
        }
    });
}

// ---------------------------------------------------------------- run loop

pub struct RunArgs {
    pub tier: Tier,
    pub seed: u64,
    pub shard: u64,
    pub nshards: u64,
    pub out_dir: String,
    pub start: u64,
    pub careful: bool,
    pub limit: Option<u64>,
    /// Sized-down runs (Miri): execute only about this many cases per stream and shard, spread
    /// evenly over the stream, instead of every case of the shard.
    pub per_stream: Option<u64>,
    /// Sized-down runs: streams whose name starts with one of these prefixes are not executed
    /// (their cases are whole exhaustive blocks, far too large for the interpreter).
    pub skip_streams: Vec<String>,
}

const BATCH: u64 = 2048;
const MAX_VIOL_PER_CELL: usize = 3;
const MAX_FP: usize = 3_000_000;

pub fn run_property(prop: &dyn Property, args: &RunArgs) -> std::io::Result<()> {
    let streams = prop.streams(args.tier, args.seed);
    let total: u64 = streams.iter().map(|s| s.count).sum();
    let path = format!("{}/shard_{}.jsonl", args.out_dir, args.shard);
    let file = std::fs::OpenOptions::new().create(true).append(true).open(&path)?;
    let mut log = BufWriter::new(file);
    start_watchdog(path.clone());
    writeln!(
        log,
        "{{\"t\":\"start\",\"shard\":{},\"nshards\":{},\"total\":{},\"start\":{}}}",
        args.shard, args.nshards, total, args.start
    )?;
    log.flush()?;

    // Plumbing self-test of the interpreter pass (never set by the registered commands): an
    // out-of-bounds read that only the interpreter notices.
    if cfg!(miri) && std::env::var("OQ3_MIRI_SELFTEST").is_ok() {
        let v = vec![1u8];
        let x = unsafe { *v.get_unchecked(5) };
        std::hint::black_box(x);
    }

    let mut obs = Obs::default();
    let mut fps: HashSet<u64> = HashSet::new();
    let mut fp_capped = false;
    let mut evaluations = 0u64;
    let mut nontrivial = 0u64;
    let mut inconclusive = 0u64;
    let mut inconcl_reasons: BTreeMap<String, u64> = BTreeMap::new();
    let mut violations = 0u64;
    let mut viol_per_cell: BTreeMap<String, usize> = BTreeMap::new();
    let mut harness_errors = 0u64;
    let mut samples_written = 0u64;
    let mut per_stream: Vec<u64> = vec![0; streams.len()];

    // Global index g runs over the concatenation of the streams; this shard takes g % nshards == shard.
    let mut base = 0u64;
    let mut since_batch = BATCH; // force a batch record at the first case
    let mut done_limit = false;
    for (si, st) in streams.iter().enumerate() {
        let lo = base;
        let hi = base + st.count;
        base = hi;
        if args.start >= hi || args.skip_streams.iter().any(|p| st.name.contains(p.as_str())) {
            continue;
        }
        // first g >= max(lo, start) with g % nshards == shard
        let from = lo.max(args.start);
        let mut g = from + ((args.shard + args.nshards - from % args.nshards) % args.nshards);
        let step = match args.per_stream {
            Some(k) => args.nshards * (st.count / (args.nshards * k.max(1))).max(1),
            None => args.nshards,
        };
        // sample spacing: ~2 samples per stream per shard
        let sample_every = (st.count / args.nshards / 2).max(1);
        while g < hi {
            if let Some(l) = args.limit {
                if evaluations >= l {
                    done_limit = true;
                    break;
                }
            }
            let idx = g - lo;
            if args.careful {
                writeln!(log, "{{\"t\":\"case\",\"g\":{g}}}")?;
                log.flush()?;
            } else if since_batch >= BATCH {
                writeln!(log, "{{\"t\":\"batch\",\"g\":{g}}}")?;
                log.flush()?;
                since_batch = 0;
            }
            since_batch += 1;
            let input = (st.gen)(idx);
            obs.clear_case();
            CASE_G.store(g, Ordering::Relaxed);
            CASE_START_MS.store(now_ms().max(1), Ordering::Relaxed);
            let r = guard(|| prop.check(&input, &mut obs));
            CASE_START_MS.store(0, Ordering::Relaxed);
            evaluations += (obs.records.len() as u64).max(1);
            per_stream[si] += 1;
            if let Err(p) = r {
                // A panic that escaped the monitor's own guards: harness bug or unguarded call.
                harness_errors += 1;
                writeln!(
                    log,
                    "{{\"t\":\"harness_error\",\"g\":{g},\"stream\":{},\"input\":{},\"panic\":{}}}",
                    jstr(&st.name),
                    jstr(&truncate(&input, 2000)),
                    jstr(&format!("{}:{}: {}", p.file, p.line, p.msg))
                )?;
                log.flush()?;
                g += step;
                continue;
            }
            if let Some(reason) = &obs.inconclusive {
                inconclusive += 1;
                *inconcl_reasons.entry(truncate(reason, 120)).or_insert(0) += 1;
            } else {
                for (fp, nt) in &obs.records {
                    if *nt {
                        nontrivial += 1;
                        if fps.len() < MAX_FP {
                            fps.insert(*fp);
                        } else if !fps.contains(fp) {
                            fp_capped = true;
                        }
                    }
                }
            }
            for v in &obs.violations {
                violations += 1;
                let n = viol_per_cell.entry(v.cell.clone()).or_insert(0);
                *n += 1;
                if *n <= MAX_VIOL_PER_CELL {
                    writeln!(
                        log,
                        "{{\"t\":\"viol\",\"g\":{g},\"stream\":{},\"cell\":{},\"input\":{},\"detail\":{}}}",
                        jstr(&st.name),
                        jstr(&v.cell),
                        jstr(&truncate(&input, 20000)),
                        jstr(&truncate(&v.detail, 4000))
                    )?;
                    log.flush()?;
                }
            }
            if idx % sample_every == (args.shard % sample_every) && samples_written < 40 && obs.inconclusive.is_none() {
                samples_written += 1;
                writeln!(
                    log,
                    "{{\"t\":\"sample\",\"stream\":{},\"input\":{},\"observed\":{}}}",
                    jstr(&st.name),
                    jstr(&truncate(&input, 600)),
                    jstr(&truncate(&obs.note, 600))
                )?;
            }
            g += step;
        }
        if done_limit {
            break;
        }
    }

    // fingerprints
    {
        let fpath = format!("{}/fp_{}.bin", args.out_dir, args.shard);
        let mut f = std::fs::OpenOptions::new().create(true).append(true).open(fpath)?;
        let mut buf = Vec::with_capacity(fps.len() * 8);
        for x in &fps {
            buf.extend_from_slice(&x.to_le_bytes());
        }
        f.write_all(&buf)?;
    }

    let mut s = String::new();
    s.push_str("{\"t\":\"end\"");
    s.push_str(&format!(",\"evaluations\":{evaluations}"));
    s.push_str(&format!(",\"nontrivial\":{nontrivial}"));
    s.push_str(&format!(",\"inconclusive\":{inconclusive}"));
    s.push_str(&format!(",\"violations\":{violations}"));
    s.push_str(&format!(",\"harness_errors\":{harness_errors}"));
    s.push_str(&format!(",\"fp_capped\":{fp_capped}"));
    s.push_str(",\"streams\":[");
    for (i, st) in streams.iter().enumerate() {
        if i > 0 {
            s.push(',');
        }
        s.push_str(&format!(
            "{{\"name\":{},\"count\":{},\"exhaustive\":{},\"done_by_shard\":{}}}",
            jstr(&st.name),
            st.count,
            st.exhaustive,
            per_stream[i]
        ));
    }
    s.push_str("],\"counts\":{");
    for (i, (k, v)) in obs.counts.iter().enumerate() {
        if i > 0 {
            s.push(',');
        }
        s.push_str(&format!("{}:{}", jstr(k), v));
    }
    s.push_str("},\"maxima\":{");
    for (i, (k, v)) in obs.maxima.iter().enumerate() {
        if i > 0 {
            s.push(',');
        }
        s.push_str(&format!("{}:{}", jstr(k), v));
    }
    s.push_str("},\"inconclusive_reasons\":{");
    for (i, (k, v)) in inconcl_reasons.iter().enumerate() {
        if i > 0 {
            s.push(',');
        }
        s.push_str(&format!("{}:{}", jstr(k), v));
    }
    s.push_str("},\"classes\":[");
    let mut cl: Vec<&String> = obs.classes.iter().collect();
    cl.sort();
    for (i, k) in cl.iter().enumerate() {
        if i > 0 {
            s.push(',');
        }
        s.push_str(&jstr(k));
    }
    s.push_str("]}");
    writeln!(log, "{s}")?;
    log.flush()?;
    Ok(())
}

/// Replay one input through the property's monitor and print the verdict as JSON.
pub fn replay(prop: &dyn Property, input: &str) {
    let mut obs = Obs::default();
    obs.clear_case();
    let r = guard(|| prop.check(input, &mut obs));
    let mut s = String::from("{");
    match r {
        Err(p) => {
            s.push_str(&format!(
                "\"harness_error\":{},",
                jstr(&format!("{}:{}: {}", p.file, p.line, p.msg))
            ));
        }
        Ok(()) => {}
    }
    s.push_str("\"violations\":[");
    for (i, v) in obs.violations.iter().enumerate() {
        if i > 0 {
            s.push(',');
        }
        s.push_str(&format!(
            "{{\"cell\":{},\"detail\":{}}}",
            jstr(&v.cell),
            jstr(&truncate(&v.detail, 4000))
        ));
    }
    s.push_str("],\"inconclusive\":");
    match &obs.inconclusive {
        Some(r) => s.push_str(&jstr(r)),
        None => s.push_str("null"),
    }
    s.push_str(&format!(",\"observed\":{}", jstr(&truncate(&obs.note, 2000))));
    s.push('}');
    println!("{s}");
}

pub fn fpmerge(dir: &str) -> std::io::Result<()> {
    let mut all: Vec<u64> = Vec::new();
    for e in std::fs::read_dir(dir)? {
        let e = e?;
        let name = e.file_name().to_string_lossy().to_string();
        if name.starts_with("fp_") && name.ends_with(".bin") {
            let b = std::fs::read(e.path())?;
            for ch in b.chunks_exact(8) {
                all.push(u64::from_le_bytes(ch.try_into().unwrap()));
            }
        }
    }
    all.sort_unstable();
    all.dedup();
    println!("{}", all.len());
    Ok(())
}

#[allow(dead_code)]
pub fn write_file(path: &str, content: &str) -> std::io::Result<()> {
    let mut f = File::create(path)?;
    f.write_all(content.as_bytes())
}

//! Generic reductions of model statements (for shrinking a failing case while an oracle clause
//! keeps failing) and skeleton strings (cells that survive renaming of identifiers/literals).

use crate::model::*;

fn leaf(id: Id) -> E {
    E { id, k: EK::Ident("z".to_string()) }
}

/// All one-step reductions of an expression.
pub fn reduce_expr(e: &E) -> Vec<E> {
    let mut out = Vec::new();
    let mk = |k: EK| E { id: e.id, k };
    match &e.k {
        EK::Ident(n) if n == "z" => {}
        EK::Ident(_) | EK::Int(_) | EK::Float(_) | EK::Bool(_) | EK::BitStr(_) | EK::Timing(..) | EK::Imag(..) | EK::HwQubit(_) => {}
        EK::Unary(op, a) => {
            out.push((**a).clone());
            for r in reduce_expr(a) {
                out.push(mk(EK::Unary(*op, Box::new(r))));
            }
        }
        EK::Binary(op, l, r) => {
            out.push((**l).clone());
            out.push((**r).clone());
            for x in reduce_expr(l) {
                out.push(mk(EK::Binary(*op, Box::new(x), r.clone())));
            }
            for x in reduce_expr(r) {
                out.push(mk(EK::Binary(*op, l.clone(), Box::new(x))));
            }
        }
        EK::Cast(t, a) => {
            out.push((**a).clone());
            if t.width.is_some() {
                out.push(mk(EK::Cast(MTy::new(t.base, None), a.clone())));
            }
            for x in reduce_expr(a) {
                out.push(mk(EK::Cast(t.clone(), Box::new(x))));
            }
        }
        EK::Call(n, args) => {
            for i in 0..args.len() {
                let mut a2 = args.clone();
                a2.remove(i);
                out.push(mk(EK::Call(n.clone(), a2)));
                for x in reduce_expr(&args[i]) {
                    let mut a3 = args.clone();
                    a3[i] = x;
                    out.push(mk(EK::Call(n.clone(), a3)));
                }
            }
        }
        EK::Index(b, ixs) => {
            out.push((**b).clone());
            if ixs.len() > 1 {
                for i in 0..ixs.len() {
                    let mut v = ixs.clone();
                    v.remove(i);
                    out.push(mk(EK::Index(b.clone(), v)));
                }
            }
            for x in reduce_expr(b) {
                out.push(mk(EK::Index(Box::new(x), ixs.clone())));
            }
            for (i, ix) in ixs.iter().enumerate() {
                let es = match ix {
                    MIndex::List(es) | MIndex::Set(es) => es,
                };
                for j in 0..es.len() {
                    for x in reduce_expr(&es[j]) {
                        let mut es2 = es.clone();
                        es2[j] = x;
                        let mut v = ixs.clone();
                        v[i] = match ix {
                            MIndex::List(_) => MIndex::List(es2),
                            MIndex::Set(_) => MIndex::Set(es2),
                        };
                        out.push(mk(EK::Index(b.clone(), v)));
                    }
                    if es.len() > 1 {
                        let mut es2 = es.clone();
                        es2.remove(j);
                        let mut v = ixs.clone();
                        v[i] = match ix {
                            MIndex::List(_) => MIndex::List(es2),
                            MIndex::Set(_) => MIndex::Set(es2),
                        };
                        out.push(mk(EK::Index(b.clone(), v)));
                    }
                }
                if let MIndex::Set(es) = ix {
                    let mut v = ixs.clone();
                    v[i] = MIndex::List(vec![es[0].clone()]);
                    out.push(mk(EK::Index(b.clone(), v)));
                }
            }
        }
        EK::Measure(q) => {
            for x in reduce_expr(q) {
                out.push(mk(EK::Measure(Box::new(x))));
            }
        }
        EK::Range(a, st, b) => {
            if st.is_some() {
                out.push(mk(EK::Range(a.clone(), None, b.clone())));
            }
            out.push((**a).clone());
        }
    }
    if !matches!(&e.k, EK::Ident(n) if n == "z") && !matches!(e.k, EK::Range(..)) {
        out.push(leaf(e.id));
    }
    out
}

fn reduce_list(v: &[S]) -> Vec<Vec<S>> {
    let mut out = Vec::new();
    for i in 0..v.len() {
        let mut w = v.to_vec();
        w.remove(i);
        out.push(w);
        for r in reduce_stmt(&v[i]) {
            let mut w = v.to_vec();
            w[i] = r;
            out.push(w);
        }
    }
    out
}

fn reduce_body(b: &Body) -> Vec<Body> {
    let mut out = Vec::new();
    match b {
        Body::Block(v) => {
            for w in reduce_list(v) {
                out.push(Body::Block(w));
            }
        }
        Body::Single(s) => {
            for r in reduce_stmt(s) {
                out.push(Body::Single(Box::new(r)));
            }
            out.push(Body::Block(vec![(**s).clone()]));
        }
    }
    out
}

fn reduce_exprs(v: &[E], min_len: usize) -> Vec<Vec<E>> {
    let mut out = Vec::new();
    for i in 0..v.len() {
        if v.len() > min_len {
            let mut w = v.to_vec();
            w.remove(i);
            out.push(w);
        }
        for r in reduce_expr(&v[i]) {
            let mut w = v.to_vec();
            w[i] = r;
            out.push(w);
        }
    }
    out
}

/// All one-step reductions of a statement (each strictly smaller).
pub fn reduce_stmt(s: &S) -> Vec<S> {
    let mk = |k: SK| S { id: s.id, k };
    let mut out = Vec::new();
    match &s.k {
        SK::Decl(c, t, n, init) => {
            if let Some(e) = init {
                for r in reduce_expr(e) {
                    out.push(mk(SK::Decl(*c, t.clone(), n.clone(), Some(r))));
                }
                if !*c {
                    out.push(mk(SK::Decl(*c, t.clone(), n.clone(), None)));
                }
            }
            if *c {
                out.push(mk(SK::Decl(false, t.clone(), n.clone(), init.clone())));
            }
            if t.width.is_some() {
                out.push(mk(SK::Decl(*c, MTy::new(t.base, None), n.clone(), init.clone())));
            }
        }
        SK::Gate(n, ps, qs, body) => {
            for w in reduce_list(body) {
                out.push(mk(SK::Gate(n.clone(), ps.clone(), qs.clone(), w)));
            }
            if ps.is_some() {
                out.push(mk(SK::Gate(n.clone(), None, qs.clone(), body.clone())));
            }
            if qs.len() > 1 {
                out.push(mk(SK::Gate(n.clone(), ps.clone(), qs[..1].to_vec(), body.clone())));
            }
        }
        SK::Def(n, ps, ret, body) => {
            for w in reduce_list(body) {
                out.push(mk(SK::Def(n.clone(), ps.clone(), ret.clone(), w)));
            }
            if !ps.is_empty() {
                out.push(mk(SK::Def(n.clone(), ps[1..].to_vec(), ret.clone(), body.clone())));
            }
            if ret.is_some() {
                out.push(mk(SK::Def(n.clone(), ps.clone(), None, body.clone())));
            }
        }
        SK::GateCall(mods, n, args, ops) => {
            if !mods.is_empty() {
                for i in 0..mods.len() {
                    let mut m = mods.clone();
                    m.remove(i);
                    out.push(mk(SK::GateCall(m, n.clone(), args.clone(), ops.clone())));
                }
            }
            if let Some(a) = args {
                out.push(mk(SK::GateCall(mods.clone(), n.clone(), None, ops.clone())));
                for w in reduce_exprs(a, 1) {
                    out.push(mk(SK::GateCall(mods.clone(), n.clone(), Some(w), ops.clone())));
                }
            }
            for w in reduce_exprs(ops, 1) {
                out.push(mk(SK::GateCall(mods.clone(), n.clone(), args.clone(), w)));
            }
        }
        SK::GPhase(mods, a) => {
            for i in 0..mods.len() {
                let mut m = mods.clone();
                m.remove(i);
                out.push(mk(SK::GPhase(m, a.clone())));
            }
            for r in reduce_expr(a) {
                out.push(mk(SK::GPhase(mods.clone(), r)));
            }
        }
        SK::MeasureStmt(q) => {
            for r in reduce_expr(q) {
                out.push(mk(SK::MeasureStmt(r)));
            }
        }
        SK::MeasureArrow(q, c) => {
            for r in reduce_expr(q) {
                out.push(mk(SK::MeasureArrow(r, c.clone())));
            }
            for r in reduce_expr(c) {
                out.push(mk(SK::MeasureArrow(q.clone(), r)));
            }
        }
        SK::Reset(q) => {
            for r in reduce_expr(q) {
                out.push(mk(SK::Reset(r)));
            }
        }
        SK::Barrier(ops) => {
            for w in reduce_exprs(ops, 1) {
                out.push(mk(SK::Barrier(w)));
            }
        }
        SK::Delay(d, ops) => {
            for r in reduce_expr(d) {
                out.push(mk(SK::Delay(r, ops.clone())));
            }
            for w in reduce_exprs(ops, 1) {
                out.push(mk(SK::Delay(d.clone(), w)));
            }
        }
        SK::If(c, t, e) => {
            for r in reduce_expr(c) {
                out.push(mk(SK::If(r, t.clone(), e.clone())));
            }
            for b in reduce_body(t) {
                out.push(mk(SK::If(c.clone(), b, e.clone())));
            }
            if let Some(eb) = e {
                out.push(mk(SK::If(c.clone(), t.clone(), None)));
                for b in reduce_body(eb) {
                    out.push(mk(SK::If(c.clone(), t.clone(), Some(b))));
                }
            }
            for st in t.stmts() {
                out.push(st.clone());
            }
            if let Some(eb) = e {
                for st in eb.stmts() {
                    out.push(st.clone());
                }
            }
        }
        SK::While(c, b) => {
            for r in reduce_expr(c) {
                out.push(mk(SK::While(r, b.clone())));
            }
            for nb in reduce_body(b) {
                out.push(mk(SK::While(c.clone(), nb)));
            }
            for st in b.stmts() {
                out.push(st.clone());
            }
        }
        SK::For(t, v, it, b) => {
            for nb in reduce_body(b) {
                out.push(mk(SK::For(t.clone(), v.clone(), it.clone(), nb)));
            }
            match it {
                Iterable::Range(r) => {
                    for x in reduce_expr(r) {
                        if matches!(x.k, EK::Range(..)) {
                            out.push(mk(SK::For(t.clone(), v.clone(), Iterable::Range(x), b.clone())));
                        }
                    }
                }
                Iterable::Set(es) => {
                    for w in reduce_exprs(es, 1) {
                        out.push(mk(SK::For(t.clone(), v.clone(), Iterable::Set(w), b.clone())));
                    }
                }
                Iterable::Expr(_) => {}
            }
            for st in b.stmts() {
                out.push(st.clone());
            }
        }
        SK::Switch(c, cases, def) => {
            for r in reduce_expr(c) {
                out.push(mk(SK::Switch(r, cases.clone(), def.clone())));
            }
            for i in 0..cases.len() {
                if cases.len() > 1 || def.is_some() {
                    let mut cs = cases.clone();
                    cs.remove(i);
                    out.push(mk(SK::Switch(c.clone(), cs, def.clone())));
                }
                for w in reduce_list(&cases[i].1) {
                    let mut cs = cases.clone();
                    cs[i].1 = w;
                    out.push(mk(SK::Switch(c.clone(), cs, def.clone())));
                }
                for st in &cases[i].1 {
                    out.push(st.clone());
                }
            }
            if let Some(d) = def {
                if !cases.is_empty() {
                    out.push(mk(SK::Switch(c.clone(), cases.clone(), None)));
                }
                for w in reduce_list(d) {
                    out.push(mk(SK::Switch(c.clone(), cases.clone(), Some(w))));
                }
                for st in d {
                    out.push(st.clone());
                }
            }
        }
        SK::Return(Some(e)) => {
            out.push(mk(SK::Return(None)));
            for r in reduce_expr(e) {
                out.push(mk(SK::Return(Some(r))));
            }
        }
        SK::Assign(t, op, rhs) => {
            for r in reduce_expr(rhs) {
                out.push(mk(SK::Assign(t.clone(), *op, r)));
            }
            for r in reduce_expr(t) {
                if matches!(r.k, EK::Ident(_) | EK::Index(..)) {
                    out.push(mk(SK::Assign(r, *op, rhs.clone())));
                }
            }
            if op.is_some() {
                out.push(mk(SK::Assign(t.clone(), None, rhs.clone())));
            }
        }
        SK::Alias(n, e) => {
            for r in reduce_expr(e) {
                out.push(mk(SK::Alias(n.clone(), r)));
            }
        }
        SK::ExprStmt(e) => {
            for r in reduce_expr(e) {
                out.push(mk(SK::ExprStmt(r)));
            }
        }
        _ => {}
    }
    out
}

pub fn size_expr(e: &E) -> usize {
    1 + match &e.k {
        EK::Unary(_, a) | EK::Cast(_, a) | EK::Measure(a) => size_expr(a),
        EK::Binary(_, l, r) => size_expr(l) + size_expr(r),
        EK::Call(_, a) => a.iter().map(size_expr).sum(),
        EK::Index(b, ixs) => {
            size_expr(b)
                + ixs
                    .iter()
                    .map(|ix| match ix {
                        MIndex::List(es) | MIndex::Set(es) => 1 + es.iter().map(size_expr).sum::<usize>(),
                    })
                    .sum::<usize>()
        }
        EK::Range(a, s, b) => size_expr(a) + s.as_ref().map(|x| size_expr(x)).unwrap_or(0) + size_expr(b),
        _ => 0,
    }
}

/// A statement after which a following `else` would attach to an inner `if`.
fn ends_open(s: &S) -> bool {
    let body_open = |b: &Body| matches!(b, Body::Single(x) if ends_open(x));
    match &s.k {
        SK::If(_, _, None) => true,
        SK::If(_, _, Some(e)) => body_open(e),
        SK::While(_, b) | SK::For(_, _, _, b) => body_open(b),
        _ => false,
    }
}

/// The printed text of such a program would not be a rendering of the model (dangling else):
/// `if (a) if (b) x; else y;` where the model attaches the else to the outer `if`.
pub fn dangling_else(prog: &[S]) -> bool {
    fn body(b: &Body) -> bool {
        match b {
            Body::Block(v) => dangling_else(v),
            Body::Single(x) => dangling_else(std::slice::from_ref(x.as_ref())),
        }
    }
    prog.iter().any(|s| match &s.k {
        SK::If(_, t, e) => {
            (e.is_some() && matches!(t, Body::Single(x) if ends_open(x))) || body(t) || e.as_ref().map(body).unwrap_or(false)
        }
        SK::While(_, b) | SK::For(_, _, _, b) => body(b),
        SK::Gate(_, _, _, b) | SK::Def(_, _, _, b) => dangling_else(b),
        SK::Switch(_, cs, d) => cs.iter().any(|c| dangling_else(&c.1)) || d.as_ref().map(|d| dangling_else(d)).unwrap_or(false),
        _ => false,
    })
}

/// Greedy shrink of a program while `fails` keeps returning true.
pub fn shrink_program(prog: &[S], fails: &mut dyn FnMut(&[S]) -> bool, budget: usize) -> Vec<S> {
    let mut cur = prog.to_vec();
    let mut spent = 0;
    'outer: loop {
        for cand in reduce_list(&cur) {
            spent += 1;
            if spent > budget {
                break 'outer;
            }
            if !dangling_else(&cand) && fails(&cand) {
                cur = cand;
                continue 'outer;
            }
        }
        break;
    }
    cur
}

// ------------------------------------------------------------------ skeletons

pub fn skel_expr(e: &E) -> String {
    match &e.k {
        EK::Ident(_) => "id".into(),
        EK::Int(_) => "int".into(),
        EK::Float(_) => "float".into(),
        EK::Bool(_) => "bool".into(),
        EK::BitStr(_) => "bits".into(),
        EK::Timing(..) => "timing".into(),
        EK::Imag(..) => "imag".into(),
        EK::HwQubit(_) => "hw".into(),
        EK::Unary(op, a) => format!("un({},{})", op.text(), skel_expr(a)),
        EK::Binary(op, l, r) => format!("bin({},{},{})", op.text(), skel_expr(l), skel_expr(r)),
        EK::Cast(t, a) => format!("cast({}{},{})", t.base.name(), if t.width.is_some() { "[w]" } else { "" }, skel_expr(a)),
        EK::Call(_, a) => format!("call({})", a.iter().map(skel_expr).collect::<Vec<_>>().join(",")),
        EK::Index(b, ixs) => format!(
            "index({};{})",
            skel_expr(b),
            ixs.iter()
                .map(|ix| match ix {
                    MIndex::List(es) => format!("[{}]", es.iter().map(skel_expr).collect::<Vec<_>>().join(",")),
                    MIndex::Set(es) => format!("[{{{}}}]", es.iter().map(skel_expr).collect::<Vec<_>>().join(",")),
                })
                .collect::<String>()
        ),
        EK::Measure(q) => format!("measure({})", skel_expr(q)),
        EK::Range(_, s, _) => if s.is_some() { "range3".into() } else { "range2".into() },
    }
}

fn skel_body(b: &Body) -> String {
    match b {
        Body::Block(v) => format!("{{{}}}", v.iter().map(skel_stmt).collect::<Vec<_>>().join(" ")),
        Body::Single(s) => format!("<{}>", skel_stmt(s)),
    }
}

fn skel_mods(m: &[Modifier]) -> String {
    m.iter()
        .map(|m| match m {
            Modifier::Inv => "inv@".to_string(),
            Modifier::Pow(_) => "pow@".to_string(),
            Modifier::Ctrl(e) => if e.is_some() { "ctrl(n)@".into() } else { "ctrl@".into() },
            Modifier::NegCtrl(e) => if e.is_some() { "negctrl(n)@".into() } else { "negctrl@".into() },
        })
        .collect()
}

pub fn skel_stmt(s: &S) -> String {
    let list = |v: &[S]| v.iter().map(skel_stmt).collect::<Vec<_>>().join(" ");
    match &s.k {
        SK::Decl(c, t, _, init) => format!(
            "decl({}{}{}{})",
            if *c { "const " } else { "" },
            t.base.name(),
            if t.width.is_some() { "[w]" } else { "" },
            init.as_ref().map(|e| format!("={}", skel_expr(e))).unwrap_or_default()
        ),
        SK::Qubit(_, sz) => format!("qubit{}", if sz.is_some() { "[n]" } else { "" }),
        SK::OldReg(q, ..) => if *q { "qreg".into() } else { "creg".into() },
        SK::Io(i, t, _) => format!("{}({})", if *i { "input" } else { "output" }, t.base.name()),
        SK::Gate(_, ps, qs, b) => format!("gate({};{};{{{}}})", ps.as_ref().map(|p| p.len().to_string()).unwrap_or("-".into()), qs.len(), list(b)),
        SK::Def(_, ps, r, b) => format!("def({};{};{{{}}})", ps.len(), if r.is_some() { "ret" } else { "void" }, list(b)),
        SK::GateCall(m, _, a, o) => format!(
            "gatecall({}{};{})",
            skel_mods(m),
            a.as_ref().map(|a| format!("({})", a.iter().map(skel_expr).collect::<Vec<_>>().join(","))).unwrap_or_default(),
            o.iter().map(skel_expr).collect::<Vec<_>>().join(",")
        ),
        SK::GPhase(m, a) => format!("gphase({}{})", skel_mods(m), skel_expr(a)),
        SK::MeasureStmt(q) => format!("measure({})", skel_expr(q)),
        SK::MeasureArrow(q, c) => format!("measure-arrow({},{})", skel_expr(q), skel_expr(c)),
        SK::Reset(q) => format!("reset({})", skel_expr(q)),
        SK::Barrier(o) => format!("barrier({})", o.len()),
        SK::Delay(d, o) => format!("delay({};{})", skel_expr(d), o.len()),
        SK::If(c, t, e) => format!("if({};{}{})", skel_expr(c), skel_body(t), e.as_ref().map(|b| format!(";else{}", skel_body(b))).unwrap_or_default()),
        SK::While(c, b) => format!("while({};{})", skel_expr(c), skel_body(b)),
        SK::For(t, _, it, b) => format!(
            "for({};{};{})",
            t.base.name(),
            match it {
                Iterable::Range(r) => skel_expr(r),
                Iterable::Set(es) => format!("set{}", es.len()),
                Iterable::Expr(e) => skel_expr(e),
            },
            skel_body(b)
        ),
        SK::Switch(c, cs, d) => format!(
            "switch({};{}{})",
            skel_expr(c),
            cs.iter().map(|(v, b)| format!("case{}{{{}}}", v.len(), list(b))).collect::<String>(),
            d.as_ref().map(|b| format!("default{{{}}}", list(b))).unwrap_or_default()
        ),
        SK::Break => "break".into(),
        SK::Continue => "continue".into(),
        SK::End => "end".into(),
        SK::Return(e) => format!("return({})", e.as_ref().map(skel_expr).unwrap_or_default()),
        SK::Assign(t, op, r) => format!("assign({}{}={})", skel_expr(t), op.map(|o| o.text()).unwrap_or(""), skel_expr(r)),
        SK::Alias(_, e) => format!("alias({})", skel_expr(e)),
        SK::ExprStmt(e) => format!("expr({})", skel_expr(e)),
        SK::Pragma(_) => "pragma".into(),
        SK::Annotation(_) => "annotation".into(),
        SK::Include(p) => format!("include({p})"),
        SK::Version(_) => "version".into(),
    }
}

pub fn skel_program(p: &[S]) -> String {
    p.iter().map(skel_stmt).collect::<Vec<_>>().join(" ")
}

//! Small deterministic PRNG (splitmix64 seeding + xoshiro256**). No external crates.

#[derive(Clone)]
pub struct Rng {
    s: [u64; 4],
}

pub fn splitmix(x: &mut u64) -> u64 {
    *x = x.wrapping_add(0x9E37_79B9_7F4A_7C15);
    let mut z = *x;
    z = (z ^ (z >> 30)).wrapping_mul(0xBF58_476D_1CE4_E5B9);
    z = (z ^ (z >> 27)).wrapping_mul(0x94D0_49BB_1331_11EB);
    z ^ (z >> 31)
}

/// Mix several integers into one seed.
pub fn mix(parts: &[u64]) -> u64 {
    let mut h = 0x1234_5678_9ABC_DEF0u64;
    for p in parts {
        let mut x = h ^ p.wrapping_mul(0x9E37_79B9_7F4A_7C15);
        h = splitmix(&mut x);
    }
    h
}

pub fn hash_str(s: &str) -> u64 {
    let mut h = 0xcbf2_9ce4_8422_2325u64;
    for b in s.bytes() {
        h ^= b as u64;
        h = h.wrapping_mul(0x0000_0100_0000_01B3);
    }
    h
}

impl Rng {
    pub fn new(seed: u64) -> Rng {
        let mut x = seed;
        let s = [
            splitmix(&mut x),
            splitmix(&mut x),
            splitmix(&mut x),
            splitmix(&mut x),
        ];
        Rng { s }
    }

    pub fn next(&mut self) -> u64 {
        let result = self.s[1].wrapping_mul(5).rotate_left(7).wrapping_mul(9);
        let t = self.s[1] << 17;
        self.s[2] ^= self.s[0];
        self.s[3] ^= self.s[1];
        self.s[1] ^= self.s[2];
        self.s[0] ^= self.s[3];
        self.s[2] ^= t;
        self.s[3] = self.s[3].rotate_left(45);
        result
    }

    /// Uniform in [0, n). n must be > 0.
    pub fn below(&mut self, n: u64) -> u64 {
        debug_assert!(n > 0);
        // Multiply-shift; bias is irrelevant here.
        ((self.next() as u128 * n as u128) >> 64) as u64
    }

    pub fn usize(&mut self, n: usize) -> usize {
        self.below(n as u64) as usize
    }

    /// Inclusive range.
    pub fn range(&mut self, lo: u64, hi: u64) -> u64 {
        lo + self.below(hi - lo + 1)
    }

    pub fn chance(&mut self, num: u64, den: u64) -> bool {
        self.below(den) < num
    }

    pub fn bool(&mut self) -> bool {
        self.next() & 1 == 1
    }

    pub fn pick<'a, T>(&mut self, xs: &'a [T]) -> &'a T {
        &xs[self.usize(xs.len())]
    }

    pub fn u128(&mut self) -> u128 {
        ((self.next() as u128) << 64) | self.next() as u128
    }
}

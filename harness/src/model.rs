//! Reference language model: a small AST for the supported OpenQASM 3 subset, written from the
//! language specification (not from the implementation), and a pretty-printer with layout
//! strategies that records the byte span of every model node (source map).

use crate::rng::Rng;

pub type Id = u32;

#[derive(Clone, Copy, Debug, PartialEq, Eq, Hash)]
pub enum Base {
    Int,
    UInt,
    Float,
    Angle,
    Bool,
    Bit,
    Complex,
    Duration,
    Stretch,
}

impl Base {
    pub fn name(self) -> &'static str {
        match self {
            Base::Int => "int",
            Base::UInt => "uint",
            Base::Float => "float",
            Base::Angle => "angle",
            Base::Bool => "bool",
            Base::Bit => "bit",
            Base::Complex => "complex",
            Base::Duration => "duration",
            Base::Stretch => "stretch",
        }
    }
    pub fn takes_width(self) -> bool {
        matches!(self, Base::Int | Base::UInt | Base::Float | Base::Angle | Base::Bit | Base::Complex)
    }
}

#[derive(Clone, Debug, PartialEq, Eq, Hash)]
pub struct MTy {
    pub base: Base,
    pub width: Option<u64>,
}

impl MTy {
    pub fn new(base: Base, width: Option<u64>) -> MTy {
        MTy { base, width }
    }
    pub fn text(&self) -> String {
        match (self.base, self.width) {
            (Base::Complex, Some(w)) => format!("complex[float[{w}]]"),
            (b, Some(w)) => format!("{}[{w}]", b.name()),
            (b, None) => b.name().to_string(),
        }
    }
}

#[derive(Clone, Copy, Debug, PartialEq, Eq, Hash)]
pub enum BinOp {
    Pow,
    Mul,
    Div,
    Rem,
    Add,
    Sub,
    Shl,
    Shr,
    Lt,
    Le,
    Gt,
    Ge,
    Eq,
    Ne,
    BitAnd,
    BitXor,
    BitOr,
    And,
    Or,
    /// `++`, only in alias right-hand sides
    Concat,
}

pub const ALL_BINOPS: [BinOp; 19] = [
    BinOp::Pow,
    BinOp::Mul,
    BinOp::Div,
    BinOp::Rem,
    BinOp::Add,
    BinOp::Sub,
    BinOp::Shl,
    BinOp::Shr,
    BinOp::Lt,
    BinOp::Le,
    BinOp::Gt,
    BinOp::Ge,
    BinOp::Eq,
    BinOp::Ne,
    BinOp::BitAnd,
    BinOp::BitXor,
    BinOp::BitOr,
    BinOp::And,
    BinOp::Or,
];

impl BinOp {
    pub fn text(self) -> &'static str {
        match self {
            BinOp::Pow => "**",
            BinOp::Mul => "*",
            BinOp::Div => "/",
            BinOp::Rem => "%",
            BinOp::Add => "+",
            BinOp::Sub => "-",
            BinOp::Shl => "<<",
            BinOp::Shr => ">>",
            BinOp::Lt => "<",
            BinOp::Le => "<=",
            BinOp::Gt => ">",
            BinOp::Ge => ">=",
            BinOp::Eq => "==",
            BinOp::Ne => "!=",
            BinOp::BitAnd => "&",
            BinOp::BitXor => "^",
            BinOp::BitOr => "|",
            BinOp::And => "&&",
            BinOp::Or => "||",
            BinOp::Concat => "++",
        }
    }
    /// Precedence level of the OpenQASM 3 table; larger binds tighter.
    pub fn prec(self) -> u8 {
        match self {
            BinOp::Pow => 13,
            // unary operators are level 12
            BinOp::Mul | BinOp::Div | BinOp::Rem => 11,
            BinOp::Add | BinOp::Sub => 10,
            BinOp::Shl | BinOp::Shr => 9,
            BinOp::Lt | BinOp::Le | BinOp::Gt | BinOp::Ge => 8,
            BinOp::Eq | BinOp::Ne => 7,
            BinOp::BitAnd => 6,
            BinOp::BitXor => 5,
            BinOp::BitOr => 4,
            BinOp::And => 3,
            BinOp::Or => 2,
            BinOp::Concat => 1,
        }
    }
    pub fn right_assoc(self) -> bool {
        matches!(self, BinOp::Pow)
    }
}

pub const UNARY_PREC: u8 = 12;
pub const POSTFIX_PREC: u8 = 14;

#[derive(Clone, Copy, Debug, PartialEq, Eq, Hash)]
pub enum UnOp {
    Neg,
    BitNot,
    Not,
}

impl UnOp {
    pub fn text(self) -> &'static str {
        match self {
            UnOp::Neg => "-",
            UnOp::BitNot => "~",
            UnOp::Not => "!",
        }
    }
}

#[derive(Clone, Debug, PartialEq)]
pub struct E {
    pub id: Id,
    pub k: EK,
}

#[derive(Clone, Debug, PartialEq)]
pub enum EK {
    Ident(String),
    Int(String),
    Float(String),
    Bool(bool),
    BitStr(String),
    /// number spelling, unit, number is a float
    Timing(String, String, bool),
    Imag(String, bool),
    HwQubit(String),
    Unary(UnOp, Box<E>),
    Binary(BinOp, Box<E>, Box<E>),
    Cast(MTy, Box<E>),
    Call(String, Vec<E>),
    /// base (an identifier => indexed identifier, else index expression), index operators
    Index(Box<E>, Vec<MIndex>),
    Measure(Box<E>),
    Range(Box<E>, Option<Box<E>>, Box<E>),
}

#[derive(Clone, Debug, PartialEq)]
pub enum MIndex {
    List(Vec<E>),
    Set(Vec<E>),
}

#[derive(Clone, Debug, PartialEq)]
pub enum Body {
    Block(Vec<S>),
    Single(Box<S>),
}

impl Body {
    pub fn stmts(&self) -> Vec<&S> {
        match self {
            Body::Block(v) => v.iter().collect(),
            Body::Single(s) => vec![s.as_ref()],
        }
    }
}

#[derive(Clone, Debug, PartialEq)]
pub enum Modifier {
    Inv,
    Pow(E),
    Ctrl(Option<E>),
    NegCtrl(Option<E>),
}

#[derive(Clone, Debug, PartialEq)]
pub enum Iterable {
    Range(E),
    Set(Vec<E>),
    Expr(E),
}

#[derive(Clone, Debug, PartialEq)]
pub struct S {
    pub id: Id,
    pub k: SK,
}

#[derive(Clone, Debug, PartialEq)]
pub enum SK {
    /// const, type, name, initializer
    Decl(bool, MTy, String, Option<E>),
    /// name, register size
    Qubit(String, Option<u64>),
    /// qreg/creg (true = qreg), name, size
    OldReg(bool, String, u64),
    /// input (true) / output, type, name
    Io(bool, MTy, String),
    /// name, angle parameters (None = no parentheses), qubits, body
    Gate(String, Option<Vec<String>>, Vec<String>, Vec<S>),
    /// name, typed params (type or qubit), return type, body
    Def(String, Vec<(Option<MTy>, String)>, Option<MTy>, Vec<S>),
    /// modifiers, name, args (None = no parentheses), operands
    GateCall(Vec<Modifier>, String, Option<Vec<E>>, Vec<E>),
    GPhase(Vec<Modifier>, E),
    /// `measure q;`
    MeasureStmt(E),
    /// `measure q -> c;`
    MeasureArrow(E, E),
    Reset(E),
    Barrier(Vec<E>),
    Delay(E, Vec<E>),
    If(E, Body, Option<Body>),
    While(E, Body),
    For(MTy, String, Iterable, Body),
    /// control, cases (values, body), default
    Switch(E, Vec<(Vec<E>, Vec<S>)>, Option<Vec<S>>),
    Break,
    Continue,
    End,
    Return(Option<E>),
    /// target, compound operator, rhs
    Assign(E, Option<BinOp>, E),
    Alias(String, E),
    ExprStmt(E),
    Pragma(String),
    Annotation(String),
    Include(String),
    Version(String),
}

pub fn stmt_kind_name(k: &SK) -> &'static str {
    match k {
        SK::Decl(..) => "decl",
        SK::Qubit(..) => "qubit",
        SK::OldReg(..) => "oldreg",
        SK::Io(..) => "io",
        SK::Gate(..) => "gate",
        SK::Def(..) => "def",
        SK::GateCall(..) => "gatecall",
        SK::GPhase(..) => "gphase",
        SK::MeasureStmt(..) => "measure",
        SK::MeasureArrow(..) => "measure-arrow",
        SK::Reset(..) => "reset",
        SK::Barrier(..) => "barrier",
        SK::Delay(..) => "delay",
        SK::If(..) => "if",
        SK::While(..) => "while",
        SK::For(..) => "for",
        SK::Switch(..) => "switch",
        SK::Break => "break",
        SK::Continue => "continue",
        SK::End => "end",
        SK::Return(..) => "return",
        SK::Assign(..) => "assign",
        SK::Alias(..) => "alias",
        SK::ExprStmt(..) => "exprstmt",
        SK::Pragma(..) => "pragma",
        SK::Annotation(..) => "annotation",
        SK::Include(..) => "include",
        SK::Version(..) => "version",
    }
}

pub fn expr_kind_name(k: &EK) -> &'static str {
    match k {
        EK::Ident(_) => "ident",
        EK::Int(_) => "int",
        EK::Float(_) => "float",
        EK::Bool(_) => "bool",
        EK::BitStr(_) => "bitstr",
        EK::Timing(..) => "timing",
        EK::Imag(..) => "imag",
        EK::HwQubit(_) => "hwqubit",
        EK::Unary(..) => "unary",
        EK::Binary(..) => "binary",
        EK::Cast(..) => "cast",
        EK::Call(..) => "call",
        EK::Index(..) => "index",
        EK::Measure(_) => "measure",
        EK::Range(..) => "range",
    }
}

// ------------------------------------------------------------------ printer

#[derive(Clone, Copy, PartialEq, Eq, Debug)]
pub enum Trivia {
    Sparse,
    Dense,
    Lines,
    Tight,
}

pub struct Layout {
    pub trivia: Trivia,
    /// percent chance of a redundant pair of parentheses around a sub-expression
    pub redundant_parens: u64,
    /// parenthesise the right-hand side of `=` when it is not an atom (works around a known defect)
    pub paren_assign_rhs: bool,
    /// parenthesise operand/operator pairs whose relative precedence is a recorded deviation of
    /// the parser from the OpenQASM table (so that both readings agree)
    pub paren_deviating: bool,
    /// percent chance of a trailing comma after the last element of an expression list (call
    /// arguments, gate parameters, index lists, set elements, case values) - legal in OpenQASM 3
    pub trailing_commas: u64,
    pub seed: u64,
}

impl Layout {
    pub fn plain() -> Layout {
        Layout {
            trivia: Trivia::Sparse,
            redundant_parens: 0,
            paren_assign_rhs: false,
            paren_deviating: false,
            trailing_commas: 0,
            seed: 0,
        }
    }
}

/// Operator pairs (in either nesting) on whose relative precedence the parser deviates from the
/// OpenQASM 3 table (recorded C05 findings).
pub fn deviating_pair(a: BinOp, b: BinOp) -> bool {
    let rel = |o: BinOp| matches!(o, BinOp::Lt | BinOp::Le | BinOp::Gt | BinOp::Ge);
    let eq = |o: BinOp| matches!(o, BinOp::Eq | BinOp::Ne);
    let bit = |o: BinOp| matches!(o, BinOp::BitAnd | BinOp::BitXor | BinOp::BitOr);
    if a == BinOp::Pow || b == BinOp::Pow {
        return true;
    }
    (rel(a) && eq(b)) || (eq(a) && rel(b)) || (bit(a) && (rel(b) || eq(b))) || (bit(b) && (rel(a) || eq(a)))
}

pub struct Printed {
    pub text: String,
    /// (node id, start, end) for every expression and statement node
    pub spans: Vec<(Id, usize, usize)>,
}

impl Printed {
    pub fn span(&self, id: Id) -> Option<(usize, usize)> {
        self.spans.iter().find(|s| s.0 == id).map(|s| (s.1, s.2))
    }
}

pub struct Printer<'a> {
    out: String,
    last_tok: String,
    spans: Vec<(Id, usize, usize)>,
    lay: &'a Layout,
    r: Rng,
    /// position where the next token will start (after pending trivia), for span starts
    pending_start: Option<Vec<Id>>,
    /// > 0 while printing a position where redundant parentheses are not legal
    /// (qubit operands, assignment targets, alias right-hand sides)
    no_extra: u32,
    /// set while printing the elements of a `{ … }` list
    no_trailing_comma: bool,
}

fn identlike(c: char) -> bool {
    // letters, digits, `_`, and the characters that may continue an identifier without being
    // alphanumeric (combining marks, the middle dot, the undertie, Indic vowel signs)
    c.is_alphanumeric() || c == '_' || matches!(c, '\u{300}'..='\u{36f}' | '\u{b7}' | '\u{203f}' | '\u{2040}' | '\u{93a}'..='\u{94f}')
}

impl<'a> Printer<'a> {
    pub fn new(lay: &'a Layout) -> Printer<'a> {
        Printer {
            out: String::new(),
            last_tok: String::new(),
            spans: Vec::new(),
            lay,
            r: Rng::new(lay.seed ^ 0x5151),
            pending_start: None,
            no_extra: 0,
            no_trailing_comma: false,
        }
    }

    /// Print an expression in a position where only the bare form is legal.
    fn bare(&mut self, e: &E, min: u8) {
        self.no_extra += 1;
        self.expr(e, min);
        self.no_extra -= 1;
    }

    fn must_separate(&self, next: &str) -> bool {
        let a = match self.last_tok.chars().last() {
            Some(c) => c,
            None => return false,
        };
        let b = next.chars().next().unwrap_or(' ');
        if self.last_tok.ends_with('\n') {
            return false;
        }
        if identlike(a) && identlike(b) {
            return true;
        }
        // `@` followed by an identifier would lex as an annotation
        if a == '@' && identlike(b) {
            return true;
        }
        // a quote followed by identifier characters would be read as a literal suffix
        if (a == '"' || a == '\'') && identlike(b) {
            return true;
        }
        // number followed by `.`, `.` followed by digit
        if (a.is_ascii_digit() && b == '.') || (a == '.' && b.is_ascii_digit()) {
            return true;
        }
        // operators that would glue into another operator or a comment opener
        let glue_pairs = [('+', '+'), ('-', '-'), ('-', '>'), ('*', '*'), ('/', '/'), ('/', '*'), ('<', '<'), ('>', '>'), ('&', '&'), ('|', '|'), ('=', '='), ('!', '='), ('<', '='), ('>', '='), ('+', '='), ('-', '='), ('*', '='), ('/', '='), ('%', '='), ('&', '='), ('|', '='), ('^', '='), ('.', '.'), (':', ':'), ('=', '>')];
        glue_pairs.contains(&(a, b))
    }

    fn trivia(&mut self, next: &str) -> String {
        let must = self.must_separate(next);
        if self.out.is_empty() {
            return match self.lay.trivia {
                Trivia::Dense => (*self.r.pick(&["", " ", "\n", "/* lead */ ", "// lead\n"])).to_string(),
                _ => String::new(),
            };
        }
        if self.last_tok.ends_with('\n') && self.lay.trivia != Trivia::Dense {
            return String::new();
        }
        let tight_before = matches!(next, ";" | "," | ")" | "]");
        let tight_after = matches!(self.last_tok.as_str(), "(" | "[");
        match self.lay.trivia {
            Trivia::Tight => {
                if must {
                    " ".to_string()
                } else {
                    String::new()
                }
            }
            Trivia::Sparse => {
                if must || !(tight_before || tight_after) {
                    " ".to_string()
                } else {
                    String::new()
                }
            }
            Trivia::Lines => {
                if self.last_tok == ";" || self.last_tok == "{" || self.last_tok == "}" {
                    "\n".to_string()
                } else if must || !(tight_before || tight_after) {
                    " ".to_string()
                } else {
                    String::new()
                }
            }
            Trivia::Dense => {
                let opts: &[&str] = if must {
                    &[" ", "\n", " /* c */ ", " // c\n", "\t", "  ", " /* a /* nested */ b */ ", "\r\n", " /** doc **/ ", " /**/ ", " /***/ ", " //\n", " /* * / // */ ", " /*\n multi\n line */ ",
                      // the rarer members of the lexer's whitespace set
                      "\u{000B}", "\u{000C}", "\u{0085}", "\u{2028}", "\u{2029}", " \u{200E}", "\u{200F} "]
                } else {
                    &["", "", " ", "\n", " /* c */ ", "/*c*/", " // c\n", "\t", "\r\n", "/** doc **/", "/**/", "/***/", "/*****/", " // /* x\n", "/* \" ' */", "\u{000B}", "\u{000C}", "\u{0085}", "\u{2028}"]
                };
                (*self.r.pick(opts)).to_string()
            }
        }
    }

    pub fn tok(&mut self, t: &str) {
        let mut tr = self.trivia(t);
        // trivia that starts with a comment opener must not glue to a preceding `/`
        if tr.starts_with('/') && self.last_tok.ends_with('/') {
            tr.insert(0, ' ');
        }
        self.out.push_str(&tr);
        if let Some(ids) = self.pending_start.take() {
            let pos = self.out.len();
            for id in ids {
                self.spans.push((id, pos, pos));
            }
        }
        self.out.push_str(t);
        self.last_tok = t.to_string();
    }

    /// A token that must be followed directly by `next` with no trivia at all (composite pieces).
    fn tok_glued(&mut self, t: &str) {
        if let Some(ids) = self.pending_start.take() {
            let pos = self.out.len();
            for id in ids {
                self.spans.push((id, pos, pos));
            }
        }
        self.out.push_str(t);
        self.last_tok = t.to_string();
    }

    fn open(&mut self, id: Id) {
        match &mut self.pending_start {
            Some(v) => v.push(id),
            None => self.pending_start = Some(vec![id]),
        }
    }

    fn close(&mut self, id: Id) {
        let end = self.out.len();
        // the most recent span entry with this id
        if let Some(s) = self.spans.iter_mut().rev().find(|s| s.0 == id) {
            s.2 = end;
        } else {
            // nothing was printed for this node
            self.spans.push((id, end, end));
            if let Some(v) = &mut self.pending_start {
                v.retain(|x| *x != id);
            }
        }
    }

    pub fn finish(mut self) -> Printed {
        if self.lay.trivia == Trivia::Dense {
            let t = (*self.r.pick(&["", "\n", " ", " // trailing", " /* trailing */", "\n\n"])).to_string();
            self.out.push_str(&t);
        } else if self.lay.trivia != Trivia::Tight {
            self.out.push('\n');
        }
        Printed {
            text: self.out,
            spans: self.spans,
        }
    }

    // ---------------------------------------------------------- expressions

    fn expr_prec(e: &E) -> u8 {
        match &e.k {
            EK::Binary(op, ..) => op.prec(),
            EK::Unary(..) => UNARY_PREC,
            EK::Measure(_) => 0, // `measure q` is only used as a whole right-hand side
            EK::Range(..) => 0,
            _ => POSTFIX_PREC + 1,
        }
    }

    /// Print `e` in a context that requires binding strength at least `min`.
    pub fn expr(&mut self, e: &E, min: u8) {
        let need = Self::expr_prec(e) < min;
        let extra = !need && self.no_extra == 0 && self.lay.redundant_parens > 0 && !matches!(e.k, EK::Measure(_) | EK::Range(..) | EK::HwQubit(_)) && self.r.chance(self.lay.redundant_parens, 100);
        if need || extra {
            self.tok("(");
            self.expr_inner(e);
            self.tok(")");
        } else {
            self.expr_inner(e);
        }
    }

    fn args(&mut self, args: &[E]) {
        for (i, a) in args.iter().enumerate() {
            if i > 0 {
                self.tok(",");
            }
            self.expr(a, 0);
        }
        if !args.is_empty() && !self.no_trailing_comma && self.lay.trailing_commas > 0 && self.r.below(100) < self.lay.trailing_commas {
            self.tok(",");
        }
    }

    /// A list inside `{ }`: this front end rejects a trailing comma there ("expected value
    /// parameter"); the property's list of constructs does not mention it - not demanded.
    fn set_elements(&mut self, es: &[E]) {
        self.no_trailing_comma = true;
        self.args(es);
        self.no_trailing_comma = false;
    }

    fn index_op(&mut self, ix: &MIndex) {
        self.tok("[");
        match ix {
            MIndex::List(es) => self.args(es),
            MIndex::Set(es) => {
                self.tok("{");
                self.set_elements(es);
                self.tok("}");
            }
        }
        self.tok("]");
    }

    fn expr_inner(&mut self, e: &E) {
        self.open(e.id);
        match &e.k {
            EK::Ident(n) => self.tok(n),
            EK::Int(s) | EK::Float(s) | EK::BitStr(s) => self.tok(s),
            EK::Bool(b) => self.tok(if *b { "true" } else { "false" }),
            EK::HwQubit(n) => self.tok(n),
            EK::Timing(n, u, _) => {
                self.tok(n);
                self.tok(u);
            }
            EK::Imag(n, _) => {
                self.tok(n);
                self.tok("im");
            }
            EK::Unary(op, a) => {
                self.tok(op.text());
                // the operand of a unary operator binds at unary level; power binds tighter
                let force = self.lay.paren_deviating && matches!(a.k, EK::Binary(BinOp::Pow, ..));
                self.expr(a, if force { POSTFIX_PREC } else { UNARY_PREC });
            }
            EK::Binary(op, l, r) => {
                let p = op.prec();
                let (mut lmin, mut rmin) = if op.right_assoc() { (p + 1, p) } else { (p, p + 1) };
                if self.lay.paren_deviating {
                    if let EK::Binary(c, ..) = &l.k {
                        if deviating_pair(*op, *c) {
                            lmin = POSTFIX_PREC;
                        }
                    }
                    if let EK::Binary(c, ..) = &r.k {
                        if deviating_pair(*op, *c) {
                            rmin = POSTFIX_PREC;
                        }
                    }
                    if *op == BinOp::Pow {
                        if matches!(l.k, EK::Unary(..)) {
                            lmin = POSTFIX_PREC;
                        }
                        if matches!(r.k, EK::Unary(..)) {
                            rmin = POSTFIX_PREC;
                        }
                    }
                }
                self.expr(l, lmin);
                self.tok(op.text());
                self.expr(r, rmin);
            }
            EK::Cast(t, a) => {
                self.ty(t);
                self.tok("(");
                self.expr(a, 0);
                self.tok(")");
            }
            EK::Call(n, args) => {
                self.tok(n);
                self.tok("(");
                self.args(args);
                self.tok(")");
            }
            EK::Index(b, ixs) => {
                if matches!(b.k, EK::Ident(_)) {
                    self.bare(b, POSTFIX_PREC);
                } else {
                    self.expr(b, POSTFIX_PREC);
                }
                // index expressions themselves may carry redundant parentheses again
                let saved = self.no_extra;
                self.no_extra = 0;
                for ix in ixs {
                    self.index_op(ix);
                }
                self.no_extra = saved;
            }
            EK::Measure(q) => {
                self.tok("measure");
                self.bare(q, POSTFIX_PREC);
            }
            EK::Range(a, st, b) => {
                self.expr(a, 1);
                self.tok(":");
                if let Some(s) = st {
                    self.expr(s, 1);
                    self.tok(":");
                }
                self.expr(b, 1);
            }
        }
        self.close(e.id);
    }

    pub fn ty(&mut self, t: &MTy) {
        match (t.base, t.width) {
            (Base::Complex, Some(w)) => {
                self.tok("complex");
                self.tok("[");
                self.tok("float");
                self.tok("[");
                self.tok(&w.to_string());
                self.tok("]");
                self.tok("]");
            }
            (b, Some(w)) => {
                self.tok(b.name());
                self.tok("[");
                self.tok(&w.to_string());
                self.tok("]");
            }
            (b, None) => self.tok(b.name()),
        }
    }

    // ---------------------------------------------------------- statements

    fn block(&mut self, stmts: &[S]) {
        self.tok("{");
        for s in stmts {
            self.stmt(s);
        }
        self.tok("}");
    }

    fn body(&mut self, b: &Body) {
        match b {
            Body::Block(v) => self.block(v),
            Body::Single(s) => self.stmt(s),
        }
    }

    fn modifiers(&mut self, mods: &[Modifier]) {
        for m in mods {
            match m {
                Modifier::Inv => self.tok("inv"),
                Modifier::Pow(e) => {
                    self.tok("pow");
                    self.tok("(");
                    self.expr(e, 0);
                    self.tok(")");
                }
                Modifier::Ctrl(e) | Modifier::NegCtrl(e) => {
                    self.tok(if matches!(m, Modifier::Ctrl(_)) { "ctrl" } else { "negctrl" });
                    if let Some(e) = e {
                        self.tok("(");
                        self.expr(e, 0);
                        self.tok(")");
                    }
                }
            }
            self.tok("@");
        }
    }

    fn names(&mut self, names: &[String]) {
        for (i, n) in names.iter().enumerate() {
            if i > 0 {
                self.tok(",");
            }
            self.tok(n);
        }
    }

    pub fn stmt(&mut self, s: &S) {
        self.open(s.id);
        match &s.k {
            SK::Decl(c, t, n, init) => {
                if *c {
                    self.tok("const");
                }
                self.ty(t);
                self.tok(n);
                if let Some(e) = init {
                    self.tok("=");
                    self.expr(e, 0);
                }
                self.tok(";");
            }
            SK::Qubit(n, sz) => {
                self.tok("qubit");
                if let Some(k) = sz {
                    self.tok("[");
                    self.tok(&k.to_string());
                    self.tok("]");
                }
                self.tok(n);
                self.tok(";");
            }
            SK::OldReg(q, n, k) => {
                self.tok(if *q { "qreg" } else { "creg" });
                self.tok(n);
                self.tok("[");
                self.tok(&k.to_string());
                self.tok("]");
                self.tok(";");
            }
            SK::Io(inp, t, n) => {
                self.tok(if *inp { "input" } else { "output" });
                self.ty(t);
                self.tok(n);
                self.tok(";");
            }
            SK::Gate(n, params, qubits, body) => {
                self.tok("gate");
                self.tok(n);
                if let Some(ps) = params {
                    self.tok("(");
                    self.names(ps);
                    self.tok(")");
                }
                self.names(qubits);
                self.block(body);
            }
            SK::Def(n, params, ret, body) => {
                self.tok("def");
                self.tok(n);
                self.tok("(");
                for (i, (t, pn)) in params.iter().enumerate() {
                    if i > 0 {
                        self.tok(",");
                    }
                    match t {
                        Some(t) => self.ty(t),
                        None => self.tok("qubit"),
                    }
                    self.tok(pn);
                }
                self.tok(")");
                if let Some(t) = ret {
                    self.tok_arrow();
                    self.ty(t);
                }
                self.block(body);
            }
            SK::GateCall(mods, n, args, ops) => {
                self.modifiers(mods);
                self.tok(n);
                if let Some(a) = args {
                    self.tok("(");
                    self.args(a);
                    self.tok(")");
                }
                for (i, o) in ops.iter().enumerate() {
                    if i > 0 {
                        self.tok(",");
                    }
                    self.bare(o, POSTFIX_PREC);
                }
                self.tok(";");
            }
            SK::GPhase(mods, a) => {
                self.modifiers(mods);
                self.tok("gphase");
                self.tok("(");
                self.expr(a, 0);
                self.tok(")");
                self.tok(";");
            }
            SK::MeasureStmt(q) => {
                self.tok("measure");
                self.bare(q, POSTFIX_PREC);
                self.tok(";");
            }
            SK::MeasureArrow(q, c) => {
                self.tok("measure");
                self.bare(q, POSTFIX_PREC);
                self.tok_arrow();
                self.bare(c, POSTFIX_PREC);
                self.tok(";");
            }
            SK::Reset(q) => {
                self.tok("reset");
                self.bare(q, POSTFIX_PREC);
                self.tok(";");
            }
            SK::Barrier(ops) => {
                self.tok("barrier");
                for (i, o) in ops.iter().enumerate() {
                    if i > 0 {
                        self.tok(",");
                    }
                    self.bare(o, POSTFIX_PREC);
                }
                self.tok(";");
            }
            SK::Delay(d, ops) => {
                self.tok("delay");
                self.tok("[");
                self.expr(d, 0);
                self.tok("]");
                for (i, o) in ops.iter().enumerate() {
                    if i > 0 {
                        self.tok(",");
                    }
                    self.bare(o, POSTFIX_PREC);
                }
                self.tok(";");
            }
            SK::If(c, t, e) => {
                self.tok("if");
                self.tok("(");
                self.expr(c, 0);
                self.tok(")");
                self.body(t);
                if let Some(e) = e {
                    self.tok("else");
                    self.body(e);
                }
            }
            SK::While(c, b) => {
                self.tok("while");
                self.tok("(");
                self.expr(c, 0);
                self.tok(")");
                self.body(b);
            }
            SK::For(t, v, it, b) => {
                self.tok("for");
                self.ty(t);
                self.tok(v);
                self.tok("in");
                match it {
                    Iterable::Range(r) => {
                        self.tok("[");
                        self.expr(r, 0);
                        self.tok("]");
                    }
                    Iterable::Set(es) => {
                        self.tok("{");
                        self.set_elements(es);
                        self.tok("}");
                    }
                    Iterable::Expr(e) => self.bare(e, POSTFIX_PREC),
                }
                self.body(b);
            }
            SK::Switch(c, cases, def) => {
                self.tok("switch");
                self.tok("(");
                self.expr(c, 0);
                self.tok(")");
                self.tok("{");
                for (vals, body) in cases {
                    self.tok("case");
                    self.args(vals);
                    self.block(body);
                }
                if let Some(d) = def {
                    self.tok("default");
                    self.block(d);
                }
                self.tok("}");
            }
            SK::Break => {
                self.tok("break");
                self.tok(";");
            }
            SK::Continue => {
                self.tok("continue");
                self.tok(";");
            }
            SK::End => {
                self.tok("end");
                self.tok(";");
            }
            SK::Return(e) => {
                self.tok("return");
                if let Some(e) = e {
                    self.expr(e, 0);
                }
                self.tok(";");
            }
            SK::Assign(t, op, rhs) => {
                self.bare(t, POSTFIX_PREC);
                match op {
                    None => self.tok("="),
                    Some(o) => {
                        let mut s = o.text().to_string();
                        s.push('=');
                        self.tok(&s);
                    }
                }
                let atom = Self::expr_prec(rhs) > POSTFIX_PREC || matches!(rhs.k, EK::Measure(_));
                // (the recorded finding is about plain `=` only: `x = a + b;`; compound assignments take any right-hand side)
                if self.lay.paren_assign_rhs && !atom && op.is_none() {
                    self.tok("(");
                    self.expr(rhs, 0);
                    self.tok(")");
                } else {
                    self.expr(rhs, 0);
                }
                self.tok(";");
            }
            SK::Alias(n, e) => {
                self.tok("let");
                self.tok(n);
                self.tok("=");
                self.bare(e, 0);
                self.tok(";");
            }
            SK::ExprStmt(e) => {
                // work-around of a recorded finding: an expression statement that starts with a
                // sized cast followed by an operator is rejected
                fn leftmost(e: &E) -> &E {
                    match &e.k {
                        EK::Binary(_, l, _) => leftmost(l),
                        EK::Index(b, _) => leftmost(b),
                        _ => e,
                    }
                }
                let lm = leftmost(e);
                let sized_cast_first = !std::ptr::eq(lm, e) && matches!(&lm.k, EK::Cast(t, _) if t.width.is_some());
                if self.lay.paren_assign_rhs && sized_cast_first {
                    self.tok("(");
                    self.expr(e, 0);
                    self.tok(")");
                } else {
                    self.expr(e, 0);
                }
                self.tok(";");
            }
            SK::Pragma(t) => {
                self.line_tok(&format!("pragma {t}"));
            }
            SK::Annotation(t) => {
                self.line_tok(&format!("@{t}"));
            }
            SK::Include(p) => {
                self.tok("include");
                self.tok(&format!("\"{p}\""));
                self.tok(";");
            }
            SK::Version(v) => {
                // the gap inside the header is white space only (the header is one lexeme of the
                // reference grammar's version mode); the dense and line layouts vary it
                let gap = match self.lay.trivia {
                    Trivia::Dense => *self.r.pick(&[" ", "\t", "\n", "\r\n", "  ", " \n ", "\t\t", "\n\n"]),
                    Trivia::Lines => "\n",
                    _ => " ",
                };
                self.tok(&format!("OPENQASM{gap}{v}"));
                self.tok(";");
            }
        }
        self.close(s.id);
    }

    fn tok_arrow(&mut self) {
        self.tok("-");
        self.tok_glued(">");
    }

    /// pragma / annotation: runs to the end of the line; starts on a fresh line in non-dense layouts
    fn line_tok(&mut self, t: &str) {
        if !self.out.is_empty() && !self.out.ends_with('\n') && self.lay.trivia != Trivia::Dense {
            self.out.push('\n');
            self.last_tok = "\n".to_string();
        }
        self.tok(t);
        self.out.push('\n');
        self.last_tok = "\n".to_string();
    }

    pub fn program(&mut self, stmts: &[S]) {
        for s in stmts {
            self.stmt(s);
        }
    }
}

pub fn print_program(stmts: &[S], lay: &Layout) -> Printed {
    let mut p = Printer::new(lay);
    p.program(stmts);
    p.finish()
}

pub fn print_expr(e: &E, lay: &Layout) -> String {
    let mut p = Printer::new(lay);
    p.expr(e, 0);
    p.out
}

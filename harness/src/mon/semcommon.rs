//! Shared helper for the model-driven semantic monitors: print a model program, analyse it.

use crate::model::*;
use crate::worker::guard;
use oq3_semantics::syntax_to_semantics::{parse_source_string, ParseResult};
use oq3_source_file::SourceString;

pub struct Analysed {
    pub printed: Printed,
    pub res: ParseResult<SourceString>,
}

pub enum AErr {
    /// the parser reported diagnostics (C04's business)
    Rejected(String),
    /// the analysis panicked (C03's business)
    Panic(String, String),
}

pub fn analyse_text(text: &str) -> Result<ParseResult<SourceString>, AErr> {
    match guard(|| parse_source_string(text, Some("model.qasm"))) {
        Err(p) => Err(AErr::Panic(p.site(), format!("{}:{} {}", p.file, p.line, p.msg))),
        Ok(res) => {
            if res.any_syntax_errors() {
                Err(AErr::Rejected(format!("{} syntax diagnostics", res.num_syntax_errors())))
            } else {
                Ok(res)
            }
        }
    }
}

pub fn analyse(prog: &[S], lay: &Layout) -> Result<Analysed, AErr> {
    let printed = print_program(prog, lay);
    let res = analyse_text(&printed.text)?;
    Ok(Analysed { printed, res })
}

pub fn sem_layout(seed: u64, dense: bool) -> Layout {
    Layout {
        trivia: if dense { Trivia::Dense } else { Trivia::Sparse },
        redundant_parens: if dense { 10 } else { 0 },
        paren_assign_rhs: true,
        paren_deviating: true,
        trailing_commas: 0,
        seed,
    }
}

pub fn diag_kind(e: &oq3_semantics::semantic_error::SemanticError) -> String {
    let k = format!("{:?}", e.kind());
    k.split('(').next().unwrap_or("").to_string()
}

// ---------------------------------------------------------------------------------------------
// The same text analysed as the innermost file of an include chain whose other files declare
// nothing and contain no fault of their own (`main -> mid1.inc -> ... -> inner.inc`).

use oq3_semantics::semantic_error::{SemanticErrorKind, SemanticErrorList};
use oq3_semantics::syntax_to_semantics::parse_source_string_with_path_search;
use std::path::PathBuf;

pub fn scratch_dir(tag: &str) -> PathBuf {
    use std::sync::atomic::{AtomicU64, Ordering};
    static N: AtomicU64 = AtomicU64::new(0);
    let n = N.fetch_add(1, Ordering::Relaxed);
    let base = std::env::current_dir().unwrap_or_else(|_| PathBuf::from("."));
    let d = base.join("fs").join(format!("{tag}-{}-{n}", std::process::id()));
    let _ = std::fs::create_dir_all(&d);
    std::fs::canonicalize(&d).unwrap_or(d)
}

/// One diagnostic of any file of the chain: kind name, the kind itself, the source text of its range.
pub struct ChainDiag {
    pub kind: String,
    pub full: SemanticErrorKind,
    pub text: String,
    pub file: String,
}

pub struct Chain {
    pub res: ParseResult<SourceString>,
    pub diags: Vec<ChainDiag>,
    /// text of the main file
    pub main_text: String,
}

fn collect_chain(list: &SemanticErrorList, main_text: &str, out: &mut Vec<ChainDiag>, top: bool) {
    let file = list.source_file_path().to_string_lossy().to_string();
    let src = if top { main_text.to_string() } else { std::fs::read_to_string(list.source_file_path()).unwrap_or_default() };
    for e in list.iter() {
        let (a, b): (usize, usize) = (e.range().start().into(), e.range().end().into());
        out.push(ChainDiag { kind: diag_kind(e), full: e.kind().clone(), text: src.get(a..b).unwrap_or("").to_string(), file: file.clone() });
    }
    for inc in list.include_errors() {
        collect_chain(inc, main_text, out, false);
    }
}

/// `inner` becomes the innermost file; `main_rest` follows the include in the main text; `mids`
/// clean files sit in between (0 = main includes inner.inc directly).
pub fn analyse_chain(inner: &str, main_rest: &str, mids: usize, tag: &str) -> Result<Chain, AErr> {
    let dir = scratch_dir(tag);
    let _ = std::fs::write(dir.join("inner.inc"), inner);
    let mut next = "inner.inc".to_string();
    for m in (0..mids).rev() {
        let name = format!("mid{m}.inc");
        let _ = std::fs::write(dir.join(&name), format!("// nothing of its own\ninclude \"{next}\";\n"));
        next = name;
    }
    let main_text = format!("include \"{next}\";\n{main_rest}");
    let d2 = dir.clone();
    let mt = main_text.clone();
    let r = guard(move || parse_source_string_with_path_search(&mt, Some("model.qasm"), Some(&[d2])));
    let out = match r {
        Err(p) => Err(AErr::Panic(p.site(), format!("{}:{} {}", p.file, p.line, p.msg))),
        Ok(res) => {
            if res.any_syntax_errors() {
                Err(AErr::Rejected(format!("{} syntax diagnostics", res.num_syntax_errors())))
            } else {
                let mut diags = Vec::new();
                collect_chain(res.semantic_errors(), &main_text, &mut diags, true);
                Ok(Chain { res, diags, main_text })
            }
        }
    };
    let _ = std::fs::remove_dir_all(&dir);
    out
}

//! Shared helper for the model-driven semantic monitors: print a model program, analyse it.

use crate::model::*;
use crate::worker::guard;
use oq3_semantics::syntax_to_semantics::{parse_source_string, ParseResult};
use oq3_source_file::SourceString;

pub struct Analysed {
    pub printed: Printed,
    pub res: ParseResult<SourceString>,
}

pub enum AErr {
    /// the parser reported diagnostics (C04's business)
    Rejected(String),
    /// the analysis panicked (C03's business)
    Panic(String, String),
}

pub fn analyse_text(text: &str) -> Result<ParseResult<SourceString>, AErr> {
    match guard(|| parse_source_string(text, Some("model.qasm"))) {
        Err(p) => Err(AErr::Panic(p.site(), format!("{}:{} {}", p.file, p.line, p.msg))),
        Ok(res) => {
            if res.any_syntax_errors() {
                Err(AErr::Rejected(format!("{} syntax diagnostics", res.num_syntax_errors())))
            } else {
                Ok(res)
            }
        }
    }
}

pub fn analyse(prog: &[S], lay: &Layout) -> Result<Analysed, AErr> {
    let printed = print_program(prog, lay);
    let res = analyse_text(&printed.text)?;
    Ok(Analysed { printed, res })
}

pub fn sem_layout(seed: u64, dense: bool) -> Layout {
    Layout {
        trivia: if dense { Trivia::Dense } else { Trivia::Sparse },
        redundant_parens: if dense { 10 } else { 0 },
        paren_assign_rhs: true,
        paren_deviating: true,
        trailing_commas: 0,
        seed,
    }
}

pub fn diag_kind(e: &oq3_semantics::semantic_error::SemanticError) -> String {
    let k = format!("{:?}", e.kind());
    k.split('(').next().unwrap_or("").to_string()
}

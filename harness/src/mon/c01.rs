//! C01 — lexing and parsing return normally on every input (no panic, no hang), with work
//! bounded by a constant factor times the number of tokens.

use super::common;
use crate::alloc;
use crate::gen::lexemes::{KEYWORDS, PUNCT, TYPES};
use crate::worker::{guard, Obs, PanicInfo, Property, Stream, Tier};
use oq3_syntax::SourceFile;
use std::sync::OnceLock;

pub struct C01;

/// One lexeme per parser-facing token kind (92 symbols).
pub fn full_alphabet() -> &'static Vec<String> {
    static A: OnceLock<Vec<String>> = OnceLock::new();
    A.get_or_init(|| {
        let mut v: Vec<String> = Vec::new();
        for k in KEYWORDS {
            v.push(k.to_string());
        }
        v.push("OPENQASM".to_string());
        for t in TYPES {
            v.push(t.to_string());
        }
        for (p, _) in PUNCT {
            v.push(p.to_string());
        }
        for x in ["a", "$0", "1", "1.5", "\"01\"", "\"s\"", "pragma x\n", "@a b\n", "OPENQASM 3.0", "§"] {
            v.push(x.to_string());
        }
        v
    })
}

/// Class-representative alphabet (48 symbols) for the default length-5 sweep.
pub fn small_alphabet() -> &'static Vec<String> {
    static A: OnceLock<Vec<String>> = OnceLock::new();
    A.get_or_init(|| {
        [
            "gate", "def", "defcal", "extern", "let", "measure", "reset", "delay", "barrier", "if", "else", "for", "in", "while",
            "switch", "case", "return", "const", "qubit", "array", "mutable", "inv", "pow", "gphase", "int", "complex", ";", ",",
            "(", ")", "{", "}", "[", "]", "@", "#", "=", "-", "+", "*", ">", ".", ":", "a", "$0", "1", "1.5", "\"01\"",
        ]
        .iter()
        .map(|s| s.to_string())
        .collect()
    })
}

fn is_punct(s: &str) -> bool {
    s.chars().count() == 1 && !s.chars().next().unwrap().is_alphanumeric() && s != "_" && s != "§"
}

/// Layouts: 0 = space separated, 1 = glued where two punctuations meet, 2 = plain
/// concatenation (tokens may fuse into other tokens: every string is a legal input here).
pub const LAYOUTS: usize = 3;

pub fn render(seq: &[&str], layout: usize, out: &mut String) {
    out.clear();
    for (i, t) in seq.iter().enumerate() {
        if i > 0 {
            let prev = seq[i - 1];
            let glue = match layout {
                0 => false,
                1 => is_punct(prev) && is_punct(t),
                _ => true,
            };
            if !glue && !prev.ends_with('\n') {
                out.push(' ');
            }
        }
        out.push_str(t);
    }
}

// Work bounds: linear in the number of tokens with a modest constant (calibrated at >= 4x the
// largest ratio observed on the unchanged tree, see DESIGN.md §6 C01).
const EVENTS_PER_TOKEN: u64 = 64;
const STEPS_PER_TOKEN: u64 = 16;
const BYTES_PER_INPUT_BYTE: u64 = 6144;
const BYTES_SLACK: u64 = 96 * 1024;

fn panic_cell(p: &PanicInfo, entry: &str) -> String {
    if p.msg.contains("parser made no progress") {
        format!("no-progress/{entry}")
    } else if p.msg.contains("the parser seems stuck") {
        format!("lookahead-limit/{entry}")
    } else {
        p.site()
    }
}

pub fn check_string(s: &str, obs: &mut Obs, fingerprint: bool) {
    let ntok = match guard(|| common::nontrivia_tokens(s)) {
        Ok(n) => n as u64,
        Err(p) => {
            obs.violate(format!("lexer/{}", p.site()), format!("{s:?}: {}:{} {}", p.file, p.line, p.msg));
            obs.done(true);
            return;
        }
    };
    obs.fp.u64(0xC01);
    for entry in ["parse", "parse_check_lex"] {
        let _ = oq3_parser::verif::take_stats();
        let (b0, _) = alloc::snapshot();
        let r = guard(|| {
            if entry == "parse" {
                let p = SourceFile::parse(s);
                (p.errors().len(), true)
            } else {
                let p = SourceFile::parse_check_lex(s);
                (p.errors().len(), p.have_parse())
            }
        });
        let st = oq3_parser::verif::take_stats();
        let (b1, _) = alloc::snapshot();
        match r {
            Err(p) => {
                obs.violate(panic_cell(&p, entry), format!("{s:?} via {entry}: {}:{} {}", p.file, p.line, p.msg));
            }
            Ok((nerr, have)) => {
                let bytes = b1 - b0;
                if have {
                    if st.events > EVENTS_PER_TOKEN * (ntok + 1) + 64 {
                        obs.violate(format!("work-bound/events/{entry}"), format!("{s:?}: {} events for {ntok} tokens", st.events));
                    }
                    if st.steps > STEPS_PER_TOKEN * (ntok + 1) + 64 {
                        obs.violate(format!("work-bound/steps/{entry}"), format!("{s:?}: {} look-ahead steps for {ntok} tokens", st.steps));
                    }
                    obs.maximum("events_x100_per_token", st.events * 100 / (ntok + 1));
                    obs.maximum("steps_x100_per_token", st.steps * 100 / (ntok + 1));
                    obs.maximum("max_events_between_consumed_tokens", st.max_events_between_bumps as u64);
                }
                if bytes > BYTES_PER_INPUT_BYTE * (s.len() as u64 + 1) + BYTES_SLACK {
                    obs.violate(format!("work-bound/bytes/{entry}"), format!("{s:?}: {bytes} bytes allocated for {} input bytes", s.len()));
                }
                obs.maximum("alloc_bytes_per_input_byte", bytes / (s.len() as u64 + 1));
                if fingerprint {
                    obs.fp.u64(nerr as u64);
                    obs.fp.u64(st.events);
                    obs.fp.u64(st.bumps);
                    obs.fp.u64(have as u64);
                }
            }
        }
    }
    if fingerprint {
        obs.done(ntok >= 3);
    }
}

// ---- CPU time as a function of the input size (work outside the parser's own counters: tree building,
// diagnostics, validation).  Thread CPU time, not wall clock; the verdict is a *ratio* of two sizes of
// the same fragment with a wide margin over linear growth, confirmed by re-measuring.
#[repr(C)]
struct Timespec {
    tv_sec: i64,
    tv_nsec: i64,
}
extern "C" {
    fn clock_gettime(clk: i32, ts: *mut Timespec) -> i32;
}

fn thread_cpu_seconds() -> f64 {
    let mut ts = Timespec { tv_sec: 0, tv_nsec: 0 };
    // CLOCK_THREAD_CPUTIME_ID = 3 on Linux
    let rc = unsafe { clock_gettime(3, &mut ts) };
    if rc != 0 {
        return f64::NAN;
    }
    ts.tv_sec as f64 + ts.tv_nsec as f64 * 1e-9
}

pub const SCALING_FRAGMENTS: &[&str] = &[
    "x = ;\n", "int ;\n", ") ;\n", "h q\n", "1 2;\n", "a b;\n", "gate ;\n", "int[ x;\n", "x = 1 +;\n", "def f( ;\n", "} ", "let a = ;\n", "int x = 1;\n", "h q;\n", "x;", "\"s\" ", "@a\n", "0x ",
    "$ ", "] ",
];
const SCALING_SMALL: usize = 2_000;
const SCALING_LARGE: usize = 16_000;

fn scaling_case(i: usize, obs: &mut Obs) {
    if cfg!(miri) {
        obs.done(false);
        return;
    }
    let frag = SCALING_FRAGMENTS[i % SCALING_FRAGMENTS.len()];
    let entry = if (i / SCALING_FRAGMENTS.len()) % 2 == 0 { "parse" } else { "parse_check_lex" };
    let small = frag.repeat(SCALING_SMALL);
    let large = frag.repeat(SCALING_LARGE);
    obs.fp.str(frag);
    obs.fp.str(entry);
    let measure = |s: &str| -> Result<f64, PanicInfo> {
        let mut best = f64::INFINITY;
        for _ in 0..2 {
            let t0 = thread_cpu_seconds();
            guard(|| {
                if entry == "parse" {
                    let p = SourceFile::parse(s);
                    std::hint::black_box(p.errors().len());
                } else {
                    let p = SourceFile::parse_check_lex(s);
                    std::hint::black_box(p.errors().len());
                }
            })?;
            best = best.min(thread_cpu_seconds() - t0);
        }
        Ok(best)
    };
    let growth = (SCALING_LARGE / SCALING_SMALL) as f64;
    let mut ratios = Vec::new();
    for _attempt in 0..3 {
        let (t1, t2) = match (measure(&small), measure(&large)) {
            (Ok(a), Ok(b)) => (a, b),
            _ => {
                obs.inconclusive("parse panicked (decided by the other streams)");
                return;
            }
        };
        if !t1.is_finite() || !t2.is_finite() {
            obs.inconclusive("thread CPU clock not available");
            return;
        }
        let ratio = t2 / t1.max(1e-4);
        ratios.push((t1, t2, ratio));
        obs.maximum("cpu_time_ratio_x100_for_8x_input", (ratio * 100.0) as u64);
        // linear growth gives about 8; anything up to 5 times that, or too short to judge, holds
        if t2 < 0.4 || ratio <= growth * 5.0 {
            obs.class("cpu-time-scaling-measured");
            obs.note = format!("{frag:?} x {SCALING_SMALL} -> {t1:.3} s, x {SCALING_LARGE} -> {t2:.3} s CPU via {entry}: ratio {ratio:.1}");
            obs.done(true);
            return;
        }
    }
    obs.violate(
        format!("work-bound/cpu-time-superlinear/{entry}"),
        format!("{frag:?} repeated {SCALING_SMALL} and {SCALING_LARGE} times via {entry}: thread CPU time (small, large, ratio) in three measurements {ratios:?}; an 8 times larger input must not cost more than 40 times as much"),
    );
    obs.done(true);
}

fn len5_full() -> bool {
    std::env::var("VERIF_C01_LEN5").map(|v| v == "full").unwrap_or(false)
}

fn seq_streams(tier: Tier) -> Vec<Stream> {
    let mut v = Vec::new();
    let n = full_alphabet().len() as u64;
    let maxlen = tier.pick(3u32, 4u32);
    for len in 0..=maxlen {
        let blocks = if len <= 2 { 1 } else { n.pow(len - 2) };
        v.push(Stream::new(&format!("token-sequences-full-alphabet-len{len}"), blocks, true, move |i| format!("seq:F:{len}:{i}")));
    }
    if tier == Tier::Thorough {
        if len5_full() {
            v.push(Stream::new("token-sequences-full-alphabet-len5", n.pow(3), true, |i| format!("seq:F:5:{i}")));
        } else {
            let m = small_alphabet().len() as u64;
            v.push(Stream::new("token-sequences-48-class-alphabet-len5", m.pow(3), true, |i| format!("seq:S:5:{i}")));
            // 2 % uniform sample of the full length-5 space, by block
            let nb = n.pow(3);
            v.push(Stream::new("token-sequences-full-alphabet-len5-sample", nb / 50, false, move |i| {
                let b = crate::rng::mix(&[0xC015, i]) % nb;
                format!("seq:F:5:{b}")
            }));
        }
    }
    v
}

impl Property for C01 {
    fn id(&self) -> &'static str {
        "C01"
    }
    fn rule(&self) -> &'static str {
        "Streams: (a) bounded-exhaustive token sequences: every sequence of length <= 3 (quick) / <= 4 (thorough) over the full 92-symbol parser-facing alphabet (one lexeme per token kind), each rendered in three layouts (space separated; glued where two punctuations meet; plain concatenation) and parsed through both entry points; thorough adds length 5 exhaustively over a 48-symbol class-representative alphabet plus a 2% sample of the full length-5 space (VERIF_C01_LEN5=full: the full space); (b) every prefix of every seed program (built-in seeds, the repository's snippets, corpus), mutated programs, token soups, nesting bombs to depth 256; (c) random hostile UTF-8. One evaluation = one source string pushed through SourceFile::parse and SourceFile::parse_check_lex under a panic hook, hook H1's no-progress assertion and work counters (events, look-ahead steps, allocated bytes). Non-trivial: >= 3 non-trivia tokens. Distinct: fingerprint of (diagnostic count, parser events, consumed tokens, have_parse) for both entry points."
    }
    fn streams(&self, tier: Tier, seed: u64) -> Vec<Stream> {
        let mut v = seq_streams(tier);
        v.extend(common::string_streams(0xC01, tier, seed, 1.0));
        v.push(Stream::new("cpu-time-of-2000-vs-16000-copies", (SCALING_FRAGMENTS.len() * 2) as u64, true, |i| format!("scale:{i}")));
        v
    }
    fn check(&self, input: &str, obs: &mut Obs) {
        if let Some(s) = input.strip_prefix("s:") {
            check_string(s, obs, true);
            obs.note = format!("{} bytes; both entry points returned", s.len());
            return;
        }
        if let Some(rest) = input.strip_prefix("scale:") {
            scaling_case(rest.parse().unwrap_or(0), obs);
            return;
        }
        if let Some(rest) = input.strip_prefix("seq:") {
            let parts: Vec<&str> = rest.split(':').collect();
            let al = if parts[0] == "F" { full_alphabet() } else { small_alphabet() };
            let len: usize = parts[1].parse().unwrap();
            let mut idx: u64 = parts[2].parse().unwrap();
            let n = al.len() as u64;
            let fixed = len.saturating_sub(2);
            let mut seq: Vec<&str> = Vec::with_capacity(len);
            for _ in 0..fixed {
                seq.push(&al[(idx % n) as usize]);
                idx /= n;
            }
            let free = len - fixed;
            let total = n.pow(free as u32);
            let mut s = String::new();
            let mut count = 0u64;
            for k in 0..total {
                seq.truncate(fixed);
                let mut kk = k;
                for _ in 0..free {
                    seq.push(&al[(kk % n) as usize]);
                    kk /= n;
                }
                for layout in 0..LAYOUTS {
                    render(&seq, layout, &mut s);
                    let before = obs.violations.len();
                    check_string(&s, obs, true);
                    count += 1;
                    let _ = before;
                }
                if obs.violations.len() > 40 {
                    break;
                }
            }
            obs.count_n("token-sequence-renderings", count);
            obs.note = format!("block of {count} renderings (sequences of length {len}, three layouts), e.g. {s:?}");
            return;
        }
        obs.inconclusive("unrecognised input spec");
    }
}

//! C12 — diagnostics carry valid spans; a diagnostic-free tree has no error nodes.

use super::common;
use crate::gen::strings;
use crate::rng::{mix, Rng};
use crate::worker::{guard, Obs, Property, Stream, Tier};
use oq3_semantics::semantic_error::SemanticErrorList;
use oq3_semantics::syntax_to_semantics::parse_source_string;
use oq3_source_file::SourceTrait;
use oq3_syntax::{SourceFile, SyntaxKind, SyntaxNode, TextRange};
use std::collections::HashSet;

pub struct C12;

fn msg_class(m: &str) -> String {
    let mut out = String::new();
    let mut in_num = false;
    for c in m.chars() {
        if c.is_ascii_digit() {
            if !in_num {
                out.push('N');
            }
            in_num = true;
        } else {
            in_num = false;
            out.push(if c == '/' { '|' } else { c });
        }
        if out.len() > 48 {
            break;
        }
    }
    out
}

fn range_problem(r: TextRange, text: &str) -> Option<&'static str> {
    let (a, b): (usize, usize) = (r.start().into(), r.end().into());
    if a > b {
        return Some("start-after-end");
    }
    if b > text.len() {
        return Some("end-past-text");
    }
    if !text.is_char_boundary(a) || !text.is_char_boundary(b) {
        return Some("not-on-char-boundary");
    }
    if text.get(a..b).is_none() {
        return Some("unsliceable");
    }
    None
}

fn error_elements(root: &SyntaxNode) -> (usize, usize) {
    let mut nodes = 0;
    let mut toks = 0;
    for e in root.descendants_with_tokens() {
        if e.kind() == SyntaxKind::ERROR {
            if e.as_node().is_some() {
                nodes += 1
            } else {
                toks += 1
            }
        }
    }
    (nodes, toks)
}

fn node_ranges(root: &SyntaxNode) -> HashSet<(u32, u32)> {
    root.descendants().map(|n| (n.text_range().start().into(), n.text_range().end().into())).collect()
}

fn check_semantic_list(list: &SemanticErrorList, text: &str, root: Option<&SyntaxNode>, which: &str, s: &str, obs: &mut Obs) {
    let ranges = root.map(node_ranges);
    for e in list.iter() {
        let kind = format!("{:?}", e.kind());
        let kind = kind.split('(').next().unwrap_or("").to_string();
        obs.count(&format!("semantic:{kind}"));
        let r = e.range();
        if let Some(p) = range_problem(r, text) {
            obs.violate(format!("semantic-range-{p}/{kind}"), format!("{s:?}: {which} diagnostic {kind} at {r:?}, text has {} bytes", text.len()));
            continue;
        }
        if let Some(rs) = &ranges {
            if !rs.contains(&(r.start().into(), r.end().into())) {
                obs.violate(format!("semantic-range-not-a-node/{kind}"), format!("{s:?}: {which} diagnostic {kind} at {r:?} is not the range of a node of that file's tree"));
            }
        }
    }
}

pub fn check_string(s: &str, obs: &mut Obs) {
    obs.fp.u64(0xC12);
    let mut clean = false;
    let mut nontrivial = false;
    for entry in ["parse", "parse_check_lex"] {
        let r = guard(|| {
            if entry == "parse" {
                let p = SourceFile::parse(s);
                let errs: Vec<(TextRange, String)> = p.errors().iter().map(|e| (e.range(), e.message().to_string())).collect();
                let (en, et) = error_elements(&p.syntax_node());
                (errs, Some((en, et)))
            } else {
                let p = SourceFile::parse_check_lex(s);
                let errs: Vec<(TextRange, String)> = p.errors().iter().map(|e| (e.range(), e.message().to_string())).collect();
                let ee = if p.have_parse() { Some(error_elements(&p.syntax_node())) } else { None };
                (errs, ee)
            }
        });
        let (errs, ee) = match r {
            Ok(x) => x,
            Err(p) => {
                obs.inconclusive(format!("panic in {entry}: {}", p.site()));
                return;
            }
        };
        for (r, m) in &errs {
            if let Some(p) = range_problem(*r, s) {
                obs.violate(format!("syntax-range-{p}/{}", msg_class(m)), format!("{s:?}: {entry} diagnostic {m:?} at {r:?}, input has {} bytes", s.len()));
            }
            obs.fp.str(&msg_class(m));
        }
        if !errs.is_empty() {
            nontrivial = true;
        }
        if let Some((en, et)) = ee {
            if errs.is_empty() && en + et > 0 {
                obs.violate(
                    format!("error-element-without-diagnostic/{}", if en > 0 { "ERROR-node" } else { "ERROR-token" }),
                    format!("{s:?}: {entry} reports no diagnostic but the tree has {en} ERROR nodes and {et} ERROR tokens"),
                );
            }
            if en + et > 0 {
                obs.class("tree-with-error-element");
            }
            if entry == "parse_check_lex" && errs.is_empty() {
                clean = true;
            }
        } else {
            obs.class("lexical-errors-only");
        }
        obs.fp.u64(errs.len() as u64);
    }
    // the file-level entry point reports the same syntax diagnostics, about the same text
    let sample = s.starts_with('\u{feff}') || s.ends_with('\u{feff}') || (s.len() % 8 == 3);
    if sample {
        let r = guard(|| {
            let direct = SourceFile::parse_check_lex(s);
            let d: Vec<(TextRange, String)> = direct.errors().iter().map(|e| (e.range(), e.message().to_string())).collect();
            let res = parse_source_string(s, Some("c12.qasm"));
            let via: Option<(Vec<(TextRange, String)>, Option<String>)> = res.syntax_result().syntax_ast().map(|a| {
                let errs = a.errors().iter().map(|e| (e.range(), e.message().to_string())).collect();
                let text = if a.have_parse() { Some(a.syntax_node().text().to_string()) } else { None };
                (errs, text)
            });
            (d, via)
        });
        match r {
            Ok((d, Some((via, text)))) => {
                if d != via {
                    let first = d.iter().zip(via.iter()).find(|(a, b)| a != b).map(|(a, b)| format!("{a:?} vs {b:?}")).unwrap_or_else(|| format!("{} vs {} diagnostics", d.len(), via.len()));
                    obs.violate("source-entry-point-diagnostics-differ/syntax".to_string(), format!("{s:?}: SourceFile::parse_check_lex and parse_source_string disagree: {first}"));
                }
                if let Some(t) = text {
                    if t != s {
                        obs.violate("source-entry-point-tree-is-about-another-text/syntax".to_string(), format!("{s:?}: the tree held by the result spells {:?}", crate::worker::truncate(&t, 200)));
                    }
                }
                obs.count("source-entry-point-compared");
            }
            Ok((_, None)) => {}
            Err(_) => obs.count("source-entry-point-skipped(analysis panicked)"),
        }
    }
    if clean {
        // semantic diagnostics
        let r = guard(|| {
            let res = parse_source_string(s, Some("c12.qasm"));
            let mut problems: Vec<(String, String)> = Vec::new();
            let mut o = Obs::default();
            let root = res.syntax_result().syntax_ast().map(|a| a.syntax_node());
            check_semantic_list(res.semantic_errors(), s, root.as_ref(), "main-file", s, &mut o);
            // included files: lists are tagged with the path of the file they refer to
            for inc in res.semantic_errors().include_errors() {
                let path = inc.source_file_path();
                let text = std::fs::read_to_string(path).unwrap_or_default();
                let root = res
                    .syntax_result()
                    .included()
                    .iter()
                    .find(|f| f.file_path() == path.as_path())
                    .and_then(|f| f.syntax_ast().filter(|a| a.have_parse()).map(|a| a.syntax_node()));
                if !inc.is_empty() && root.is_some() {
                    check_semantic_list(inc, &text, root.as_ref(), "included-file", s, &mut o);
                }
            }
            for v in o.violations {
                problems.push((v.cell, v.detail));
            }
            let n = res.semantic_errors().len();
            (problems, n, o.counts)
        });
        match r {
            Ok((problems, n, counts)) => {
                for (c, d) in problems {
                    obs.violate(c, d);
                }
                for (k, v) in counts {
                    obs.count_n(&k, v);
                }
                if n > 0 {
                    obs.class("semantic-diagnostics-observed");
                    nontrivial = true;
                }
                obs.fp.u64(n as u64 + 77);
            }
            Err(_) => {
                // analysis panicked: C03's business; the syntactic part above stays conclusive
                obs.count("semantic-part-skipped(analysis panicked)");
            }
        }
    }
    obs.done(nontrivial);
}

// ---------------------------------------------------------------- include chains on disk
//
// main.qasm -> a.inc -> b.inc (depth 1..=3), every file with semantic faults on non-ASCII
// identifiers at different offsets and of very different lengths.  Every diagnostic list (the main
// one and, recursively, the lists of included files) names a file; each of its diagnostics must be
// the range of a node of *that* file's tree.

fn collect_files<'a, T: SourceTrait>(src: &'a T, out: &mut Vec<&'a oq3_source_file::SourceFile>) {
    for f in src.included() {
        out.push(f);
        collect_files(f, out);
    }
}

fn check_lists_against_files(list: &SemanticErrorList, files: &[&oq3_source_file::SourceFile], what: &str, o: &mut Obs, seen: &mut usize) {
    for inc in list.include_errors() {
        let path = inc.source_file_path();
        let canon = std::fs::canonicalize(path).unwrap_or_else(|_| path.clone());
        let file = files.iter().find(|f| std::fs::canonicalize(f.file_path()).unwrap_or_else(|_| f.file_path().to_path_buf()) == canon);
        match file {
            None => {
                if !inc.is_empty() {
                    o.violate(
                        "semantic-list-names-no-included-file".to_string(),
                        format!("{what}: a list with {} diagnostics is filed under {path:?}, which is not one of the included files", inc.len()),
                    );
                }
            }
            Some(f) => {
                let text = std::fs::read_to_string(f.file_path()).unwrap_or_default();
                let root = f.syntax_ast().filter(|a| a.have_parse()).map(|a| a.syntax_node());
                *seen += inc.len();
                check_semantic_list(inc, &text, root.as_ref(), "included-file", what, o);
            }
        }
        check_lists_against_files(inc, files, what, o, seen);
    }
}

fn include_chain_case(seed: u64, obs: &mut Obs) {
    let mut r = Rng::new(seed);
    let depth = r.range(1, 3) as usize;
    let base = std::env::current_dir().unwrap_or_else(|_| std::path::PathBuf::from("."));
    let dir = base.join("fs").join(format!("c12-{}-{seed:x}", std::process::id()));
    let _ = std::fs::create_dir_all(&dir);
    let dir = std::fs::canonicalize(&dir).unwrap_or(dir);
    let names = ["main.qasm", "a.inc", "b.inc", "c.inc"];
    let mut texts: Vec<String> = Vec::new();
    for lvl in 0..=depth {
        let mut t = String::new();
        // the deeper the file, the longer its preamble: offsets in it exceed the parents' lengths
        for k in 0..(lvl * r.range(2, 6) as usize) {
            t.push_str(&format!("// padding line {k} of level {lvl} äöü\nint[32] pad_{lvl}_{k} = {k};\n"));
        }
        if lvl < depth && r.bool() {
            t.push_str(&format!("include \"{}\";\n", names[lvl + 1]));
        }
        let nf = r.range(if lvl == 0 { 0 } else { 1 }, 3);
        for k in 0..nf {
            match r.below(3) {
                0 => t.push_str(&format!("int[32] d{lvl}_{k} = unerklärt_{lvl}_{k} + 1;\n")),
                1 => t.push_str(&format!("gätchen_{lvl}_{k} $0;\n")),
                _ => t.push_str(&format!("int[8] twice_{lvl};\n")),
            }
        }
        if lvl < depth && !t.contains("include") {
            t.push_str(&format!("include \"{}\";\n", names[lvl + 1]));
        }
        texts.push(t);
    }
    for (lvl, t) in texts.iter().enumerate() {
        let _ = std::fs::write(dir.join(names[lvl]), t);
    }
    obs.fp.u64(seed);
    let main_path = dir.join(names[0]);
    let via_file = r.bool();
    let what = format!("chain of depth {depth} in {dir:?} ({})", if via_file { "parse_source_file" } else { "parse_source_string_with_path_search" });
    let r2 = guard(|| {
        let mut o = Obs::default();
        let mut seen = 0usize;
        if via_file {
            let res = oq3_semantics::syntax_to_semantics::parse_source_file_with_search(&main_path, Some(&[dir.clone()]));
            let mut files = Vec::new();
            collect_files(res.syntax_result(), &mut files);
            let root = res.syntax_result().syntax_ast().filter(|a| a.have_parse()).map(|a| a.syntax_node());
            check_semantic_list(res.semantic_errors(), &texts[0], root.as_ref(), "main-file", &what, &mut o);
            seen += res.semantic_errors().len();
            check_lists_against_files(res.semantic_errors(), &files, &what, &mut o, &mut seen);
        } else {
            let res = oq3_semantics::syntax_to_semantics::parse_source_string_with_path_search(texts[0].as_str(), Some("main.qasm"), Some(&[dir.clone()]));
            let mut files = Vec::new();
            collect_files(res.syntax_result(), &mut files);
            let root = res.syntax_result().syntax_ast().filter(|a| a.have_parse()).map(|a| a.syntax_node());
            check_semantic_list(res.semantic_errors(), &texts[0], root.as_ref(), "main-file", &what, &mut o);
            seen += res.semantic_errors().len();
            check_lists_against_files(res.semantic_errors(), &files, &what, &mut o, &mut seen);
        }
        (o, seen)
    });
    let _ = std::fs::remove_dir_all(&dir);
    match r2 {
        Err(p) => obs.inconclusive(format!("analysis panicked (C03/C18): {}", p.site())),
        Ok((o, seen)) => {
            for v in o.violations {
                obs.violate(v.cell, v.detail);
            }
            for (k, v) in o.counts {
                obs.count_n(&k, v);
            }
            if seen > 0 {
                obs.class("semantic-diagnostics-in-included-files");
            }
            obs.note = format!("{what}: {seen} semantic diagnostics checked against the files they are filed under");
            obs.done(seen > 0);
        }
    }
}

const SUBST: &[&str] = &["§", "\0", "a😀b", "while", "\"", "θ"];

fn substitution_count() -> u64 {
    strings::seed_programs().iter().map(|s| strings::crude_tokens(s).len() as u64).sum::<u64>() * SUBST.len() as u64
}

fn substitution_case(mut idx: u64) -> String {
    let k = SUBST.len() as u64;
    for s in strings::seed_programs() {
        let toks = strings::crude_tokens(s);
        let n = toks.len() as u64 * k;
        if idx < n {
            let (a, b) = toks[(idx / k) as usize];
            let mut out = s.clone();
            out.replace_range(a..b, SUBST[(idx % k) as usize]);
            return out;
        }
        idx -= n;
    }
    String::new()
}


/// Programs that analyse with semantic diagnostics, using non-ASCII identifiers and comments
/// so that byte offsets differ from character offsets.
fn semantic_fault_program(r: &mut Rng) -> String {
    let ids = ["θ", "变量", "ñ", "Δx", "x", "q"];
    let mut s = String::from("/* µ-comment ☃ */ include \"stdgates.inc\";\n");
    let n = r.range(1, 6);
    for _ in 0..n {
        let a = *r.pick(&ids);
        let b = *r.pick(&ids);
        let st = match r.below(12) {
            0 => format!("int[8] {a} = {b};"),
            1 => format!("qubit {a};"),
            2 => format!("h {a};"),
            3 => format!("cx {a}, {b}; // ☃"),
            4 => format!("{a} = {b} + 1.5;"),
            5 => format!("const float {a} = 2.0; {a} = 3.0;"),
            6 => format!("rx {a};"),
            7 => format!("rx(1, 2) {a};"),
            8 => format!("if ({a} == 1) {{ qubit {b}; }}"),
            9 => format!("gate {a} {b} {{ x {b}; y {a}; }}"),
            10 => format!("return {a};"),
            _ => format!("bit {a} = measure {b};"),
        };
        s.push_str(&st);
        s.push_str(*r.pick(&[" ", "\n", " /* é */ "]));
    }
    s
}

impl Property for C12 {
    fn id(&self) -> &'static str {
        "C12"
    }
    fn rule(&self) -> &'static str {
        "Streams: the shared string streams (prefixes of seed programs, mutated programs, token soups, hostile UTF-8, nesting bombs); exhaustive single-token substitution mutants of every seed program (each crude token replaced by §, NUL, an emoji identifier, a keyword, a lone quote, a Greek letter); string-literal programs with every escape error next to multi-byte characters; programs with injected semantic faults using non-ASCII identifiers and comments. Monitor: every syntax diagnostic of both entry points has start <= end <= len on char boundaries and slices the source; no diagnostic => no ERROR node/token; for sources that parse cleanly every semantic diagnostic (main file and included files) has a valid range that is exactly the range of a node of that file's tree. Non-trivial: at least one diagnostic of any stage was observed. Distinct: fingerprint of diagnostic message classes and counts."
    }
    fn streams(&self, tier: Tier, seed: u64) -> Vec<Stream> {
        let mut v = common::string_streams(0xC12, tier, seed, tier.pick(0.5, 0.3));
        {
            let n = super::c01::full_alphabet().len() as u64;
            for len in 0..=3u32 {
                let blocks = if len <= 2 { 1 } else { n.pow(len - 2) };
                v.push(Stream::new(&format!("token-sequences-len{len}-three-layouts"), blocks, true, move |i| format!("seq:F:{len}:{i}")));
            }
        }
        v.push(Stream::new("single-token-substitutions", substitution_count(), true, |i| format!("s:{}", substitution_case(i))));
        v.push(Stream::new("include-chains-with-semantic-faults", tier.pick(1_500, 50_000), false, move |i| format!("inc:{}", mix(&[seed, 0xC12, 12, i]))));
        v.push(Stream::new("semantic-faults-non-ascii", tier.pick(20_000, 1_000_000), false, move |i| {
            let mut r = Rng::new(mix(&[seed, 0xC12, 11, i]));
            format!("s:{}", semantic_fault_program(&mut r))
        }));
        v
    }
    fn check(&self, input: &str, obs: &mut Obs) {
        if let Some(s) = input.strip_prefix("s:") {
            check_string(s, obs);
            obs.note = format!("{} bytes: all diagnostic spans valid", s.len());
            return;
        }
        if let Some(rest) = input.strip_prefix("inc:") {
            include_chain_case(rest.parse().unwrap_or(0), obs);
            return;
        }
        if let Some(rest) = input.strip_prefix("seq:") {
            let parts: Vec<&str> = rest.split(':').collect();
            let al = super::c01::full_alphabet();
            let len: usize = parts[1].parse().unwrap();
            let mut idx: u64 = parts[2].parse().unwrap();
            let n = al.len() as u64;
            let fixed = len.saturating_sub(2);
            let mut seq: Vec<&str> = Vec::new();
            for _ in 0..fixed {
                seq.push(&al[(idx % n) as usize]);
                idx /= n;
            }
            let free = len - fixed;
            let total = n.pow(free as u32);
            let mut s = String::new();
            let mut count = 0;
            for k in 0..total {
                seq.truncate(fixed);
                let mut kk = k;
                for _ in 0..free {
                    seq.push(&al[(kk % n) as usize]);
                    kk /= n;
                }
                for layout in 0..super::c01::LAYOUTS {
                    super::c01::render(&seq, layout, &mut s);
                    check_string(&s, obs);
                    count += 1;
                }
                if obs.violations.len() > 40 || obs.inconclusive.is_some() {
                    break;
                }
            }
            obs.note = format!("block of {count} renderings, e.g. {s:?}");
            return;
        }
        obs.inconclusive("unrecognised input spec");
    }
    fn mandatory_classes(&self, _tier: Tier) -> Vec<&'static str> {
        vec!["tree-with-error-element", "lexical-errors-only", "semantic-diagnostics-observed", "semantic-diagnostics-in-included-files"]
    }
}

//! Parallel walk of a model program and the semantic graph (`asg::Program`) through the public
//! accessors: structural comparison (C06) and collection of the symbol references found at
//! every declaration and use (C07), and of the observed expression types (C08).

use crate::model::*;
use crate::model_resolve::DeclKey;
use oq3_semantics::asg::{self, Expr, GateModifier, GateOperand, IndexOperator, LValue, Literal, Stmt, TExpr};
use oq3_semantics::symbols::SymbolIdResult;
use oq3_semantics::types::Type;

pub type Mismatch = (String, String);

#[derive(Default)]
pub struct Walk {
    pub decls: Vec<(DeclKey, SymbolIdResult)>,
    /// (model use id, reference found in the graph, type of the expression node)
    pub uses: Vec<(Id, SymbolIdResult, Type)>,
    /// (model expression id, observed type, the node had to be reached through N implicit casts)
    pub types: Vec<(Id, Type, usize)>,
    pub nodes: usize,
}

fn mm<T>(role: &str, d: String) -> Result<T, Mismatch> {
    Err((role.to_string(), d))
}

fn short(x: &impl std::fmt::Debug) -> String {
    crate::worker::truncate(&format!("{x:?}"), 220)
}

fn strip_casts(e: &TExpr) -> (&TExpr, usize) {
    let mut cur = e;
    let mut n = 0;
    while let Expr::Cast(c) = cur.expression() {
        cur = c.operand();
        n += 1;
    }
    (cur, n)
}

fn arith(op: BinOp) -> Option<asg::ArithOp> {
    use asg::ArithOp as A;
    Some(match op {
        BinOp::Mul => A::Mul,
        BinOp::Div => A::Div,
        BinOp::Rem => A::Rem,
        BinOp::Add => A::Add,
        BinOp::Sub => A::Sub,
        BinOp::Shl => A::Shl,
        BinOp::Shr => A::Shr,
        BinOp::BitAnd => A::BitAnd,
        BinOp::BitXor => A::BitXOr,
        BinOp::BitOr => A::BitOr,
        _ => return None,
    })
}

fn int_value(spelling: &str) -> Option<u128> {
    let s: String = spelling.chars().filter(|c| *c != '_').collect();
    let low = s.to_lowercase();
    if let Some(h) = low.strip_prefix("0x") {
        u128::from_str_radix(h, 16).ok()
    } else if let Some(b) = low.strip_prefix("0b") {
        u128::from_str_radix(b, 2).ok()
    } else if let Some(o) = low.strip_prefix("0o") {
        u128::from_str_radix(o, 8).ok()
    } else {
        s.parse().ok()
    }
}

impl Walk {
    fn exprs(&mut self, ms: &[E], gs: &[TExpr], role: &str) -> Result<(), Mismatch> {
        if ms.len() != gs.len() {
            return mm(&format!("{role}/count"), format!("{} elements in the graph, {} in the program", gs.len(), ms.len()));
        }
        for (i, (m, g)) in ms.iter().zip(gs).enumerate() {
            self.expr(m, g, role).map_err(|(r, d)| (r, format!("element {i}: {d}")))?;
        }
        Ok(())
    }

    fn index_op(&mut self, m: &MIndex, g: &IndexOperator, role: &str) -> Result<(), Mismatch> {
        match (m, g) {
            (MIndex::List(es), IndexOperator::ExpressionList(l)) => self.exprs(es, &l.expressions, &format!("{role}/index-list")),
            (MIndex::Set(es), IndexOperator::SetExpression(s)) => self.exprs(es, s.expressions(), &format!("{role}/index-set")),
            (m, g) => mm(&format!("{role}/index-kind"), format!("{m:?} vs {}", short(g))),
        }
    }

    fn indexed(&mut self, b: &E, ixs: &[MIndex], ii: &asg::IndexedIdentifier, ty: &Type, role: &str) -> Result<(), Mismatch> {
        self.uses.push((b.id, ii.identifier().clone(), ty.clone()));
        if ii.indexes().len() != ixs.len() {
            return mm(&format!("{role}/index-operator-count"), format!("{} vs {}", ii.indexes().len(), ixs.len()));
        }
        for (m, g) in ixs.iter().zip(ii.indexes()) {
            self.index_op(m, g, role)?;
        }
        Ok(())
    }

    pub fn operand(&mut self, m: &E, g: &TExpr, role: &str) -> Result<(), Mismatch> {
        self.nodes += 1;
        match (&m.k, g.expression()) {
            (EK::Ident(_), Expr::GateOperand(GateOperand::Identifier(sym))) => {
                self.uses.push((m.id, sym.clone(), g.get_type().clone()));
                Ok(())
            }
            (EK::HwQubit(n), Expr::GateOperand(GateOperand::HardwareQubit(h))) => {
                if h.identifier() == n {
                    Ok(())
                } else {
                    mm(role, format!("hardware qubit {} vs {n}", h.identifier()))
                }
            }
            (EK::Index(b, ixs), Expr::GateOperand(GateOperand::IndexedIdentifier(ii))) => self.indexed(b, ixs, ii, g.get_type(), role),
            (m, g) => mm(&format!("{role}/operand-kind"), format!("program has {} operand, graph has {}", expr_kind_name(m), short(g))),
        }
    }

    fn operands(&mut self, ms: &[E], gs: &[TExpr], role: &str) -> Result<(), Mismatch> {
        if ms.len() != gs.len() {
            return mm(&format!("{role}/operand-count"), format!("{} vs {}", gs.len(), ms.len()));
        }
        for (i, (m, g)) in ms.iter().zip(gs).enumerate() {
            self.operand(m, g, &format!("{role}/operand")).map_err(|(r, d)| (r, format!("operand {i}: {d}")))?;
        }
        Ok(())
    }

    pub fn expr(&mut self, m: &E, g: &TExpr, role: &str) -> Result<(), Mismatch> {
        self.nodes += 1;
        // explicit casts of the program must be present; implicit ones are skipped
        if let EK::Cast(t, a) = &m.k {
            let mut cur = g;
            let mut depth = 0;
            loop {
                match cur.expression() {
                    Expr::Cast(c) => {
                        let mut probe = Walk::default();
                        if probe.expr(a, c.operand(), role).is_ok() && cast_target_matches(t, c.get_type()) {
                            self.types.push((m.id, cur.get_type().clone(), depth));
                            return self.expr(a, c.operand(), &format!("{role}/cast-operand"));
                        }
                        cur = c.operand();
                        depth += 1;
                    }
                    _ => return mm(&format!("{role}/explicit-cast-missing"), format!("cast to {} not found in {}", t.text(), short(g))),
                }
            }
        }
        let (inner, ncasts) = strip_casts(g);
        self.types.push((m.id, inner.get_type().clone(), ncasts));
        let ge = inner.expression();
        match (&m.k, ge) {
            (EK::Ident(_), Expr::Identifier(sym)) => {
                self.uses.push((m.id, sym.clone(), inner.get_type().clone()));
                Ok(())
            }
            (EK::HwQubit(n), Expr::HardwareQubit(h)) => {
                if h.identifier() == n {
                    Ok(())
                } else {
                    mm(&format!("{role}/hardware-qubit"), format!("{} vs {n}", h.identifier()))
                }
            }
            (EK::Int(s), Expr::Literal(Literal::Int(i))) => {
                if Some(*i.value()) == int_value(s) && *i.sign() {
                    Ok(())
                } else {
                    mm(&format!("{role}/literal-int"), format!("{:?} vs {s}", i))
                }
            }
            (EK::Float(s), Expr::Literal(Literal::Float(f))) => {
                let a: Option<f64> = s.replace('_', "").parse().ok();
                let b: Option<f64> = f.value().parse().ok();
                if a == b {
                    Ok(())
                } else {
                    mm(&format!("{role}/literal-float"), format!("{:?} vs {s}", f.value()))
                }
            }
            (EK::Bool(b), Expr::Literal(Literal::Bool(x))) => {
                if x.value() == b {
                    Ok(())
                } else {
                    mm(&format!("{role}/literal-bool"), format!("{} vs {b}", x.value()))
                }
            }
            (EK::BitStr(s), Expr::Literal(Literal::BitString(x))) => {
                if x.value() == s.trim_matches('"') {
                    Ok(())
                } else {
                    mm(&format!("{role}/literal-bits"), format!("{} vs {s}", x.value()))
                }
            }
            (EK::Timing(n, u, false), Expr::Literal(Literal::TimingIntLiteral(t))) => {
                let unit = unit_name(t.time_unit());
                if Some(*t.value()) == int_value(n) && unit == norm_unit(u) {
                    Ok(())
                } else {
                    mm(&format!("{role}/literal-timing"), format!("{t:?} vs {n}{u}"))
                }
            }
            (EK::Timing(n, u, true), Expr::Literal(Literal::TimingFloatLiteral(t))) => {
                let unit = unit_name(t.time_unit());
                if n.parse::<f64>().ok() == Some(*t.value()) && unit == norm_unit(u) {
                    Ok(())
                } else {
                    mm(&format!("{role}/literal-timing"), format!("{t:?} vs {n}{u}"))
                }
            }
            (EK::Imag(n, false), Expr::Literal(Literal::ImaginaryInt(i))) => {
                if Some(*i.value()) == int_value(n) && *i.sign() {
                    Ok(())
                } else {
                    mm(&format!("{role}/literal-imaginary"), format!("{i:?} vs {n}im"))
                }
            }
            (EK::Imag(n, true), Expr::Literal(Literal::ImaginaryFloat(f))) => {
                if n.parse::<f64>().ok() == f.value().parse::<f64>().ok() {
                    Ok(())
                } else {
                    mm(&format!("{role}/literal-imaginary"), format!("{f:?} vs {n}im"))
                }
            }
            // a minus sign directly applied to a numeric literal is folded into the literal
            (EK::Unary(UnOp::Neg, a), Expr::Literal(l)) if matches!(a.k, EK::Int(_) | EK::Float(_) | EK::Imag(..)) => {
                let ok = match (&a.k, l) {
                    (EK::Int(s), Literal::Int(i)) | (EK::Imag(s, false), Literal::ImaginaryInt(i)) => Some(*i.value()) == int_value(s) && !*i.sign(),
                    (EK::Float(s), Literal::Float(f)) | (EK::Imag(s, true), Literal::ImaginaryFloat(f)) => {
                        s.replace('_', "").parse::<f64>().ok().map(|x| -x) == f.value().parse::<f64>().ok()
                    }
                    _ => false,
                };
                if ok {
                    Ok(())
                } else {
                    mm(&format!("{role}/negated-literal"), format!("{} vs -{:?}", short(l), a.k))
                }
            }
            (EK::Unary(op, a), Expr::UnaryExpr(u)) => {
                let ok = matches!((op, u.op()), (UnOp::Neg, asg::UnaryOp::Minus) | (UnOp::Not, asg::UnaryOp::Not) | (UnOp::BitNot, asg::UnaryOp::BitNot));
                if !ok {
                    return mm(&format!("{role}/unary-op"), format!("{:?} vs {op:?}", u.op()));
                }
                self.expr(a, u.operand(), &format!("{role}/unary-operand"))
            }
            (EK::Binary(op, l, r), Expr::BinaryExpr(b)) => {
                let ok = match (op, b.op()) {
                    (BinOp::Eq, asg::BinaryOp::CmpOp(asg::CmpOp::Eq)) => true,
                    (BinOp::Ne, asg::BinaryOp::CmpOp(asg::CmpOp::Neq)) => true,
                    (BinOp::Concat, asg::BinaryOp::ConcatenationOp) => true,
                    (BinOp::Pow, asg::BinaryOp::PowerOp) => true,
                    (o, asg::BinaryOp::ArithOp(a)) => arith(*o).as_ref() == Some(a),
                    _ => false,
                };
                if !ok {
                    return mm(&format!("{role}/binary-op/{}", op.text()), format!("graph operator {:?}, program operator `{}`", b.op(), op.text()));
                }
                self.expr(l, b.left(), &format!("{role}/binary-left"))?;
                self.expr(r, b.right(), &format!("{role}/binary-right"))
            }
            (EK::Call(_, args), Expr::SubroutineCall(c)) => {
                self.uses.push((m.id, c.name().clone(), inner.get_type().clone()));
                self.exprs(args, c.params().unwrap_or(&[]), &format!("{role}/call-args"))
            }
            (EK::Index(b, ixs), Expr::IndexedIdentifier(ii)) if matches!(b.k, EK::Ident(_)) => self.indexed(b, ixs, ii, inner.get_type(), role),
            // IndexExpression has no public accessors: opaque
            (EK::Index(b, _), Expr::IndexExpression(_)) if !matches!(b.k, EK::Ident(_)) => Ok(()),
            (EK::Measure(q), Expr::MeasureExpression(me)) => self.operand(q, me.operand(), &format!("{role}/measure-operand")),
            (EK::Range(a, s, b), Expr::RangeExpression(r)) => {
                self.expr(a, r.start(), &format!("{role}/range-start"))?;
                match (s, r.step()) {
                    (None, None) => {}
                    (Some(s), Some(g)) => self.expr(s, g, &format!("{role}/range-step"))?,
                    (s, g) => return mm(&format!("{role}/range-step"), format!("program step {} vs graph step {}", s.is_some(), g.is_some())),
                }
                self.expr(b, r.stop(), &format!("{role}/range-stop"))
            }
            (mk, g) => mm(&format!("{role}/expression-kind/{}", expr_kind_name(mk)), format!("program has {}, graph has {}", expr_kind_name(mk), short(g))),
        }
    }

    fn block(&mut self, ms: &[S], gs: &[Stmt], role: &str) -> Result<(), Mismatch> {
        // annotations attach to the statement that follows them; includes/version vanish
        let mut expected: Vec<(&S, Vec<&str>)> = Vec::new();
        let mut pending: Vec<&str> = Vec::new();
        for s in ms {
            match &s.k {
                SK::Annotation(t) => pending.push(t),
                SK::Include(_) | SK::Version(_) => {}
                _ => expected.push((s, std::mem::take(&mut pending))),
            }
        }
        if expected.len() != gs.len() {
            let kinds: Vec<String> = gs.iter().map(|g| short(g).split(['(', ' ']).next().unwrap_or("").to_string()).collect();
            return mm(&format!("{role}/statement-count"), format!("{} statements in the graph {:?}, {} expected", gs.len(), kinds, expected.len()));
        }
        for (i, ((m, anns), g)) in expected.iter().zip(gs).enumerate() {
            let inner = match g {
                Stmt::AnnotatedStmt(a) => {
                    let got: Vec<String> = a.annotations().iter().map(|x| x.annotation_text().trim().to_string()).collect();
                    let want: Vec<String> = anns.iter().map(|t| format!("@{}", t.trim())).collect();
                    if got != want {
                        // an annotation written inside a nested block that surfaces on the enclosing statement
                        let leaked = want.is_empty() && contains_annotation(m);
                        let clause = if leaked { "annotation-leaked-from-nested-block" } else { "annotation-attachment" };
                        return mm(&format!("{role}/{clause}"), format!("statement {i}: annotations {got:?}, expected {want:?}"));
                    }
                    a.statement()
                }
                other => {
                    if !anns.is_empty() {
                        return mm(&format!("{role}/annotation-attachment"), format!("statement {i} ({}) lost its annotations {anns:?}", stmt_kind_name(&m.k)));
                    }
                    other
                }
            };
            self.stmt(m, inner).map_err(|(r, d)| (r, format!("statement {i} ({}): {d}", stmt_kind_name(&m.k))))?;
        }
        Ok(())
    }

    fn body(&mut self, m: &Body, g: &asg::Block, role: &str) -> Result<(), Mismatch> {
        let v: Vec<S> = m.stmts().into_iter().cloned().collect();
        self.block(&v, g.statements(), role).map_err(|(r, d)| (format!("{role}>{r}"), d))
    }

    fn modifiers(&mut self, ms: &[Modifier], gs: &[GateModifier], role: &str) -> Result<(), Mismatch> {
        if ms.len() != gs.len() {
            return mm(&format!("{role}/modifier-count"), format!("{} vs {}", gs.len(), ms.len()));
        }
        for (i, (m, g)) in ms.iter().zip(gs).enumerate() {
            match (m, g) {
                (Modifier::Inv, GateModifier::Inv) => {}
                (Modifier::Pow(e), GateModifier::Pow(t)) => self.expr(e, t, &format!("{role}/pow-exponent"))?,
                (Modifier::Ctrl(None), GateModifier::Ctrl(None)) | (Modifier::NegCtrl(None), GateModifier::NegCtrl(None)) => {}
                (Modifier::Ctrl(Some(e)), GateModifier::Ctrl(Some(t))) | (Modifier::NegCtrl(Some(e)), GateModifier::NegCtrl(Some(t))) => self.expr(e, t, &format!("{role}/ctrl-count"))?,
                (m, g) => return mm(&format!("{role}/modifier-order"), format!("modifier {i}: program {m:?}, graph {}", short(g))),
            }
        }
        Ok(())
    }

    pub fn stmt(&mut self, m: &S, g: &Stmt) -> Result<(), Mismatch> {
        self.nodes += 1;
        let role = stmt_kind_name(&m.k);
        match (&m.k, g) {
            (SK::Decl(_, _, _, init), Stmt::DeclareClassical(d)) => {
                self.decls.push((DeclKey(m.id, 0), d.name().clone()));
                match (init, d.initializer()) {
                    (None, None) => Ok(()),
                    (Some(e), Some(t)) => self.expr(e, t, "decl/initializer"),
                    (e, t) => mm("decl/initializer-presence", format!("program {} vs graph {}", e.is_some(), t.is_some())),
                }
            }
            (SK::Qubit(..), Stmt::DeclareQuantum(d)) => {
                self.decls.push((DeclKey(m.id, 0), d.name().clone()));
                Ok(())
            }
            (SK::OldReg(..), Stmt::NullStmt) => Ok(()),
            (SK::Io(inp, ..), Stmt::InputDeclaration(d)) if *inp => {
                self.decls.push((DeclKey(m.id, 0), d.name().clone()));
                Ok(())
            }
            (SK::Io(inp, ..), Stmt::OutputDeclaration(d)) if !*inp => {
                self.decls.push((DeclKey(m.id, 0), d.name().clone()));
                Ok(())
            }
            (SK::Gate(_, ps, qs, body), Stmt::GateDefinition(gd)) => {
                self.decls.push((DeclKey(m.id, 0), gd.name().clone()));
                let np = ps.as_ref().map(|p| p.len()).unwrap_or(0);
                match (ps, gd.params()) {
                    (None, None) => {}
                    (Some(p), Some(gp)) if p.len() == gp.len() => {
                        for (i, s) in gp.iter().enumerate() {
                            self.decls.push((DeclKey(m.id, 1 + i as u32), s.clone()));
                        }
                    }
                    (p, gp) => return mm("gate/param-list", format!("program {:?} vs graph {:?}", p.as_ref().map(|x| x.len()), gp.map(|x| x.len()))),
                }
                if gd.qubits().len() != qs.len() {
                    return mm("gate/qubit-count", format!("{} vs {}", gd.qubits().len(), qs.len()));
                }
                for (i, s) in gd.qubits().iter().enumerate() {
                    self.decls.push((DeclKey(m.id, 1 + (np + i) as u32), s.clone()));
                }
                self.block(body, gd.block().statements(), "gate/body").map_err(|(r, d)| (format!("gate/body>{r}"), d))
            }
            (SK::Def(_, ps, _, body), Stmt::DefStmt(d)) => {
                self.decls.push((DeclKey(m.id, 0), d.name().clone()));
                if d.params().len() != ps.len() {
                    return mm("def/param-count", format!("{} vs {}", d.params().len(), ps.len()));
                }
                for (i, s) in d.params().iter().enumerate() {
                    self.decls.push((DeclKey(m.id, 1 + i as u32), s.clone()));
                }
                self.block(body, d.block().statements(), "def/body").map_err(|(r, d)| (format!("def/body>{r}"), d))
            }
            (SK::GateCall(mods, _, args, ops), Stmt::GateCall(gc)) => {
                self.modifiers(mods, gc.modifiers(), "gatecall")?;
                // gate names are recorded as uses of the statement id
                self.uses.push((m.id, gc.name().clone(), Type::Void));
                match (args, gc.params()) {
                    (None, None) => {}
                    (Some(a), Some(p)) => self.exprs(a, p, "gatecall/args")?,
                    (a, p) => return mm("gatecall/args-presence", format!("program {:?} vs graph {:?}", a.as_ref().map(|x| x.len()), p.map(|x| x.len()))),
                }
                self.operands(ops, gc.qubits(), "gatecall")
            }
            (SK::GPhase(mods, a), Stmt::GPhaseCall(gp)) if mods.is_empty() => self.expr(a, gp.arg(), "gphase/arg"),
            (SK::GPhase(mods, a), Stmt::ModifiedGPhaseCall(gp)) if !mods.is_empty() => {
                self.modifiers(mods, gp.modifiers(), "gphase")?;
                self.expr(a, gp.arg(), "gphase/arg")
            }
            (SK::MeasureStmt(q), Stmt::ExprStmt(t)) => match t.expression() {
                Expr::MeasureExpression(me) => self.operand(q, me.operand(), "measure/operand"),
                other => mm("measure/shape", short(other)),
            },
            (SK::Reset(q), Stmt::Reset(r)) => self.operand(q, r.gate_operand(), "reset/operand"),
            (SK::Barrier(ops), Stmt::Barrier(b)) => self.operands(ops, b.qubits().unwrap_or(&[]), "barrier"),
            (SK::Delay(d, ops), Stmt::Delay(ds)) => {
                self.operands(ops, ds.qubits(), "delay")?;
                self.expr(d, ds.duration(), "delay/duration")
            }
            (SK::If(c, t, e), Stmt::If(i)) => {
                self.expr(c, i.condition(), "if/condition")?;
                self.body(t, i.then_branch(), "if/then")?;
                match (e, i.else_branch()) {
                    (None, None) => Ok(()),
                    (Some(e), Some(g)) => self.body(e, g, "if/else"),
                    (e, g) => mm("if/else-presence", format!("program {} vs graph {}", e.is_some(), g.is_some())),
                }
            }
            (SK::While(c, b), Stmt::While(w)) => {
                self.expr(c, w.condition(), "while/condition")?;
                self.body(b, w.loop_body(), "while/body")
            }
            (SK::For(_, _, it, b), Stmt::ForStmt(f)) => {
                match (it, f.iterable()) {
                    (Iterable::Range(r), asg::ForIterable::RangeExpression(g)) => {
                        if let EK::Range(a, s, b2) = &r.k {
                            self.expr(a, g.start(), "for/range-start")?;
                            match (s, g.step()) {
                                (None, None) => {}
                                (Some(s), Some(gs)) => self.expr(s, gs, "for/range-step")?,
                                (s, gs) => return mm("for/range-step", format!("{} vs {}", s.is_some(), gs.is_some())),
                            }
                            self.expr(b2, g.stop(), "for/range-stop")?;
                        }
                    }
                    (Iterable::Set(es), asg::ForIterable::SetExpression(g)) => self.exprs(es, g.expressions(), "for/set")?,
                    (Iterable::Expr(e), asg::ForIterable::Expr(g)) => self.expr(e, g, "for/iterable")?,
                    (it, g) => return mm("for/iterable-kind", format!("{it:?} vs {}", short(g))),
                }
                self.decls.push((DeclKey(m.id, 0), f.loop_var().clone()));
                self.body(b, f.loop_body(), "for/body")
            }
            (SK::Switch(c, cases, def), Stmt::SwitchCaseStmt(s)) => {
                self.expr(c, s.control(), "switch/control")?;
                if s.cases().len() != cases.len() {
                    return mm("switch/case-count", format!("{} vs {}", s.cases().len(), cases.len()));
                }
                for ((vals, body), g) in cases.iter().zip(s.cases()) {
                    self.exprs(vals, g.control_values(), "switch/case-values")?;
                    self.block(body, g.statements(), "switch/case").map_err(|(r, d)| (format!("switch/case>{r}"), d))?;
                }
                match (def, s.default_block()) {
                    (None, None) => Ok(()),
                    (Some(d), Some(g)) => self.block(d, g, "switch/default").map_err(|(r, d)| (format!("switch/default>{r}"), d)),
                    (d, g) => mm("switch/default-presence", format!("{} vs {}", d.is_some(), g.is_some())),
                }
            }
            (SK::Break, Stmt::Break) | (SK::Continue, Stmt::Continue) | (SK::End, Stmt::End) => Ok(()),
            (SK::Return(e), Stmt::ExprStmt(t)) => match t.expression() {
                Expr::Return(r) => match (e, r.value()) {
                    (None, None) => Ok(()),
                    (Some(e), Some(g)) => self.expr(e, g, "return/value"),
                    (e, g) => mm("return/value-presence", format!("{} vs {}", e.is_some(), g.is_some())),
                },
                other => mm("return/shape", short(other)),
            },
            (SK::Assign(t, None, rhs), Stmt::Assignment(a)) => {
                match (&t.k, a.lvalue()) {
                    (EK::Ident(_), LValue::Identifier(sym)) => self.uses.push((t.id, sym.clone(), Type::Void)),
                    (EK::Index(b, ixs), LValue::IndexedIdentifier(ii)) => self.indexed(b, ixs, ii, &Type::Void, "assign/target")?,
                    (t, l) => return mm("assign/target-kind", format!("program target {}, graph {}", expr_kind_name(t), short(l))),
                }
                self.expr(rhs, a.rvalue(), "assign/rhs")
            }
            (SK::Alias(_, e), Stmt::Alias(a)) => {
                self.decls.push((DeclKey(m.id, 0), a.name().clone()));
                self.alias_value(e, a.rhs())
            }
            (SK::ExprStmt(e), Stmt::ExprStmt(t)) => self.expr(e, t, "exprstmt"),
            (SK::Pragma(t), Stmt::Pragma(p)) => {
                if p.pragma_text().trim() == t.trim() {
                    Ok(())
                } else {
                    mm("pragma/text", format!("{:?} vs {t:?}", p.pragma_text()))
                }
            }
            (_, g) => mm(&format!("{role}/statement-kind"), format!("program has a {role} statement, graph has {}", short(g))),
        }
    }

    /// alias right-hand sides: operands joined by `++`
    fn alias_value(&mut self, m: &E, g: &TExpr) -> Result<(), Mismatch> {
        match (&m.k, g.expression()) {
            (EK::Binary(BinOp::Concat, l, r), Expr::BinaryExpr(b)) if matches!(b.op(), asg::BinaryOp::ConcatenationOp) => {
                self.alias_value(l, b.left())?;
                self.alias_value(r, b.right())
            }
            (EK::Binary(BinOp::Concat, ..), other) => mm("alias/concatenation", short(other)),
            _ => self.expr(m, g, "alias/value"),
        }
    }

    pub fn program(&mut self, ms: &[S], p: &asg::Program) -> Result<(), Mismatch> {
        self.block(ms, p.stmts(), "program")
    }
}

fn unit_name(u: &asg::TimeUnit) -> &'static str {
    match u {
        asg::TimeUnit::Second => "s",
        asg::TimeUnit::MilliSecond => "ms",
        asg::TimeUnit::MicroSecond => "us",
        asg::TimeUnit::NanoSecond => "ns",
        asg::TimeUnit::Cycle => "dt",
    }
}

fn norm_unit(u: &str) -> &str {
    if u == "µs" {
        "us"
    } else {
        u
    }
}

pub fn cast_target_matches(t: &MTy, g: &Type) -> bool {
    let w = |x: &Option<u32>| x.map(|v| v as u64);
    match (t.base, g) {
        (Base::Int, Type::Int(x, _)) | (Base::UInt, Type::UInt(x, _)) | (Base::Float, Type::Float(x, _)) | (Base::Angle, Type::Angle(x, _)) | (Base::Complex, Type::Complex(x, _)) => w(x) == t.width,
        (Base::Bool, Type::Bool(_)) | (Base::Duration, Type::Duration(_)) | (Base::Stretch, Type::Stretch(_)) => true,
        (Base::Bit, Type::Bit(_)) => t.width.is_none(),
        (Base::Bit, Type::BitArray(d, _)) => t.width.map(|w| vec![w as usize]) == Some(d.dims()),
        _ => false,
    }
}

fn contains_annotation(s: &S) -> bool {
    fn list(v: &[S]) -> bool {
        v.iter().any(|s| matches!(s.k, SK::Annotation(_)) || contains_annotation(s))
    }
    fn body(b: &Body) -> bool {
        b.stmts().iter().any(|s| matches!(s.k, SK::Annotation(_)) || contains_annotation(s))
    }
    match &s.k {
        SK::Gate(_, _, _, b) | SK::Def(_, _, _, b) => list(b),
        SK::If(_, t, e) => body(t) || e.as_ref().map(body).unwrap_or(false),
        SK::While(_, b) | SK::For(_, _, _, b) => body(b),
        SK::Switch(_, cs, d) => cs.iter().any(|c| list(&c.1)) || d.as_ref().map(|d| list(d)).unwrap_or(false),
        _ => false,
    }
}

//! C19 — the symbol table behaves as a stack of scopes under every operation history.
//!
//! History + executable model: every operation is applied to the real `SymbolTable` and to a
//! small sequential model; after every step all look-ups of all names and all issued ids are
//! compared.

use crate::rng::{mix, Rng};
use crate::worker::{guard, Obs, Property, Stream, Tier};
use oq3_semantics::symbols::{ScopeType, SymbolError, SymbolTable, SymbolType};
use oq3_semantics::types::{IsConst, Type};
use std::collections::HashMap;

pub struct C19;

#[derive(Clone, Copy, PartialEq, Eq, Debug)]
enum Ty {
    Int,
    Qubit,
    Gate,
    HwQubit,
    /// a standard-library gate with its parameter and qubit counts
    Std(usize, usize),
    /// the placeholder types the analysis gives to what it does not support / could not type
    Todo,
    Undef,
}

fn real_type(t: Ty) -> Type {
    match t {
        Ty::Std(a, b) => Type::Gate(a, b),
        Ty::Todo => Type::ToDo,
        Ty::Undef => Type::Undefined,
        Ty::Int => Type::Int(Some(32), IsConst::False),
        Ty::Qubit => Type::Qubit,
        Ty::Gate => Type::Gate(1, 2),
        Ty::HwQubit => Type::HardwareQubit,
    }
}

#[derive(Clone, Debug, PartialEq, Eq)]
enum Op {
    EnterLocal,
    EnterSub,
    Exit,
    Bind(String, Ty),
    Lookup(String),
    LookupOrBind(String, Ty),
    /// bind the standard library in the current scope (what `include "stdgates.inc";` does)
    StdLib,
}

fn op_text(op: &Op) -> String {
    match op {
        Op::StdLib => "STD".into(),
        Op::Bind(n, Ty::Std(..)) | Op::LookupOrBind(n, Ty::Std(..)) => format!("bg:{n}"),
        Op::EnterLocal => "L".into(),
        Op::EnterSub => "S".into(),
        Op::Exit => "X".into(),
        Op::Bind(n, Ty::Int) => format!("bi:{n}"),
        Op::Bind(n, Ty::Qubit) => format!("bq:{n}"),
        Op::Bind(n, Ty::Gate) => format!("bg:{n}"),
        Op::Bind(n, Ty::HwQubit) => format!("bh:{n}"),
        Op::Bind(n, Ty::Todo) => format!("bt:{n}"),
        Op::Bind(n, Ty::Undef) => format!("bu:{n}"),
        Op::LookupOrBind(n, Ty::Todo) => format!("ot:{n}"),
        Op::LookupOrBind(n, Ty::Undef) => format!("ou:{n}"),
        Op::Lookup(n) => format!("l:{n}"),
        Op::LookupOrBind(n, Ty::Int) => format!("oi:{n}"),
        Op::LookupOrBind(n, Ty::Qubit) => format!("oq:{n}"),
        Op::LookupOrBind(n, Ty::Gate) => format!("og:{n}"),
        Op::LookupOrBind(n, Ty::HwQubit) => format!("oh:{n}"),
    }
}

fn parse_op(s: &str) -> Option<Op> {
    let ty = |c: &str| match c {
        "i" => Some(Ty::Int),
        "q" => Some(Ty::Qubit),
        "g" => Some(Ty::Gate),
        "h" => Some(Ty::HwQubit),
        "t" => Some(Ty::Todo),
        "u" => Some(Ty::Undef),
        _ => None,
    };
    Some(match s {
        "STD" => Op::StdLib,
        "L" => Op::EnterLocal,
        "S" => Op::EnterSub,
        "X" => Op::Exit,
        _ => {
            let (k, n) = s.split_once(':')?;
            if k == "l" {
                Op::Lookup(n.to_string())
            } else if let Some(t) = k.strip_prefix('b') {
                Op::Bind(n.to_string(), ty(t)?)
            } else if let Some(t) = k.strip_prefix('o') {
                Op::LookupOrBind(n.to_string(), ty(t)?)
            } else {
                return None;
            }
        }
    })
}

/// The 9-operation alphabet of the bounded-exhaustive sweep.
fn alphabet9() -> Vec<Op> {
    vec![
        Op::EnterLocal,
        Op::EnterSub,
        Op::Exit,
        Op::Bind("a".into(), Ty::Int),
        Op::Bind("b".into(), Ty::Int),
        Op::Bind("a".into(), Ty::Qubit),
        Op::Bind("b".into(), Ty::Qubit),
        Op::Lookup("a".into()),
        Op::Lookup("b".into()),
    ]
}

const BUILTIN_CONSTS: &[&str] = &["pi", "π", "euler", "ℇ", "tau", "τ"];

#[derive(Clone)]
struct Model {
    scopes: Vec<HashMap<String, usize>>,
    /// name, type, or builtin marker
    symbols: Vec<(String, Option<Ty>)>,
}

impl Model {
    fn new() -> Model {
        let mut m = Model {
            scopes: vec![HashMap::new()],
            symbols: Vec::new(),
        };
        for c in BUILTIN_CONSTS {
            m.bind_raw(c, None);
        }
        m.bind_raw("U", None);
        m
    }
    fn bind_raw(&mut self, name: &str, ty: Option<Ty>) -> usize {
        let id = self.symbols.len();
        self.symbols.push((name.to_string(), ty));
        self.scopes.last_mut().unwrap().insert(name.to_string(), id);
        id
    }
    fn lookup(&self, name: &str) -> Option<usize> {
        for sc in self.scopes.iter().rev() {
            if let Some(id) = sc.get(name) {
                return Some(*id);
            }
        }
        None
    }
}

struct Run {
    table: SymbolTable,
    model: Model,
    names: Vec<String>,
}

fn expected_type(m: &Model, id: usize) -> Type {
    match &m.symbols[id] {
        (n, None) if n == "U" => Type::Gate(3, 1),
        (_, None) => Type::Float(Some(64), IsConst::True),
        (_, Some(t)) => real_type(*t),
    }
}

impl Run {
    fn new(names: &[&str]) -> Run {
        Run {
            table: SymbolTable::new(),
            model: Model::new(),
            names: names.iter().map(|s| s.to_string()).collect(),
        }
    }

    /// Apply one operation to both; returns a clause name on the first disagreement.
    fn step(&mut self, op: &Op) -> Result<(), (String, String)> {
        let opname = match op {
            Op::EnterLocal | Op::EnterSub => "enter",
            Op::Exit => "exit",
            Op::Bind(..) => "bind",
            Op::Lookup(..) => "lookup",
            Op::LookupOrBind(..) => "lookup_or_bind",
            Op::StdLib => "standard-library",
        };
        let fail = |clause: &str, d: String| Err((format!("{opname}/{clause}"), d));
        match op {
            Op::StdLib => {
                // one binding attempt per library gate, in the library's order: it fails iff the
                // current scope already has the name, and the failures are what is returned
                let collided = self.table.verif_standard_library_gates();
                let mut expect = Vec::new();
                for (name, np, nq) in crate::model_resolve::STDGATES {
                    if self.model.scopes.last().unwrap().contains_key(*name) {
                        expect.push(name.to_string());
                    } else {
                        self.model.bind_raw(name, Some(Ty::Std(*np, *nq)));
                    }
                }
                if collided != expect {
                    return fail("collisions-reported", format!("standard_library_gates() reports {collided:?}, the current scope already had {expect:?}"));
                }
            }
            Op::EnterLocal => {
                self.table.verif_enter_scope(ScopeType::Local);
                self.model.scopes.push(HashMap::new());
            }
            Op::EnterSub => {
                self.table.verif_enter_scope(ScopeType::Subroutine);
                self.model.scopes.push(HashMap::new());
            }
            Op::Exit => {
                if self.model.scopes.len() > 1 {
                    self.table.exit_scope();
                    self.model.scopes.pop();
                } else {
                    // Leaving the global scope is documented as a programming error (an assertion):
                    // the call must not succeed in closing it.  The assertion is the first thing
                    // exit_scope does, so after it has fired the table is as before.
                    let table = &mut self.table;
                    let r = guard(std::panic::AssertUnwindSafe(|| table.exit_scope()));
                    if r.is_ok() && self.table.verif_scope_depth() != 1 {
                        return fail("global-scope-closed", format!("exit_scope() with only the global scope open was accepted; {} scopes remain", self.table.verif_scope_depth()));
                    }
                }
            }
            Op::Bind(name, ty) => {
                let r = self.table.new_binding(name, &real_type(*ty));
                let dup = self.model.scopes.last().unwrap().contains_key(name);
                match (r, dup) {
                    (Err(SymbolError::AlreadyBound), true) => {}
                    (Ok(id), false) => {
                        let mid = self.model.bind_raw(name, Some(*ty));
                        let ord = self.table.verif_symbol_ordinal(&id);
                        if ord != mid {
                            return fail("id-not-fresh", format!("new id {ord}, expected {mid}"));
                        }
                    }
                    (r, dup) => {
                        return fail("binding-result", format!("new_binding({name}) = {r:?}, name already in current scope: {dup}"));
                    }
                }
            }
            Op::Lookup(name) => {
                // checked below for all names anyway
                let _ = name;
            }
            Op::LookupOrBind(name, ty) => {
                let id = self.table.lookup_or_new_binding(name, &real_type(*ty));
                let ord = self.table.verif_symbol_ordinal(&id);
                let expect = match self.model.lookup(name) {
                    Some(mid) => mid,
                    None => self.model.bind_raw(name, Some(*ty)),
                };
                if ord != expect {
                    return fail("result", format!("lookup_or_new_binding({name}) = {ord}, expected {expect}"));
                }
            }
        }
        self.compare(opname)
    }

    fn compare(&self, opname: &str) -> Result<(), (String, String)> {
        let fail = |clause: &str, d: String| Err((format!("{opname}/{clause}"), d));
        // depth, current scope size, number of symbols
        if self.table.verif_scope_depth() != self.model.scopes.len() {
            return fail("scope-depth", format!("{} vs model {}", self.table.verif_scope_depth(), self.model.scopes.len()));
        }
        if self.table.len_current_scope() != self.model.scopes.last().unwrap().len() {
            return fail(
                "len-current-scope",
                format!("{} vs model {}", self.table.len_current_scope(), self.model.scopes.last().unwrap().len()),
            );
        }
        if self.table.verif_num_symbols() != self.model.symbols.len() {
            return fail("num-symbols", format!("{} vs model {}", self.table.verif_num_symbols(), self.model.symbols.len()));
        }
        // look-ups of all names (user names, built-ins and a name never bound)
        let extra = ["pi", "τ", "U", "never_bound"];
        for name in self.names.iter().map(|s| s.as_str()).chain(extra.iter().copied()) {
            let real = self.table.lookup(name);
            let model = self.model.lookup(name);
            match (real, model) {
                (Err(SymbolError::MissingBinding), None) => {}
                (Ok(rec), Some(mid)) => {
                    let ord = self.table.verif_symbol_ordinal(&rec.symbol_id());
                    if ord != mid {
                        return fail("lookup-innermost", format!("lookup({name}) -> id {ord}, model (innermost open scope) {mid}"));
                    }
                    if rec.symbol_type() != &expected_type(&self.model, mid) {
                        return fail("lookup-type", format!("lookup({name}) type {:?}", rec.symbol_type()));
                    }
                }
                (r, m) => {
                    return fail("lookup-visibility", format!("lookup({name}) = {:?}, model {:?}", r.map(|x| x.symbol_id()), m));
                }
            }
        }
        // the listing accessors hand out the same ids
        let hw: Vec<(String, usize)> = self.table.hardware_qubits().into_iter().map(|(n, id)| (n.to_string(), self.table.verif_symbol_ordinal(&id))).collect();
        let hw_model: Vec<(String, usize)> = self.model.symbols.iter().enumerate().filter(|(_, s)| s.1 == Some(Ty::HwQubit)).map(|(i, s)| (s.0.clone(), i)).collect();
        if hw != hw_model {
            return fail("hardware-qubits-listing", format!("{hw:?} vs model {hw_model:?}"));
        }
        let gl: Vec<(String, usize)> = self.table.gates().map(|(n, id, _, _)| (n.to_string(), self.table.verif_symbol_ordinal(&id))).collect();
        let gl_model: Vec<(String, usize)> = self.model.symbols.iter().enumerate().filter(|(_, s)| matches!(s.1, Some(Ty::Gate | Ty::Std(..))) && s.0 != "U").map(|(i, s)| (s.0.clone(), i)).collect();
        if gl != gl_model {
            return fail("gates-listing", format!("{gl:?} vs model {gl_model:?}"));
        }
        // every id ever issued still denotes the same name and type
        for (mid, (name, _)) in self.model.symbols.iter().enumerate() {
            let id = self.table.verif_symbol_id(mid);
            let sym = &self.table[&id];
            if sym.name() != name {
                return fail("id-stability-name", format!("id {mid} now named {:?}, was {:?}", sym.name(), name));
            }
            if sym.symbol_type() != &expected_type(&self.model, mid) {
                return fail("id-stability-type", format!("id {mid} type {:?}", sym.symbol_type()));
            }
        }
        // gate listing: every gate symbol ever created except U
        let mut real_gates: Vec<(String, usize, usize, usize)> = self
            .table
            .gates()
            .map(|(n, id, a, b)| (n.to_string(), self.table.verif_symbol_ordinal(&id), a, b))
            .collect();
        real_gates.sort();
        let mut model_gates: Vec<(String, usize, usize, usize)> = self
            .model
            .symbols
            .iter()
            .enumerate()
            // (the listing documents that it leaves out every symbol named `U`)
            .filter(|(_, (n, _))| n != "U")
            .filter_map(|(i, (n, t))| match t {
                Some(Ty::Gate) => Some((n.clone(), i, 1usize, 2usize)),
                Some(Ty::Std(a, b)) => Some((n.clone(), i, *a, *b)),
                _ => None,
            })
            .collect();
        model_gates.sort();
        if real_gates != model_gates {
            return fail("gates-listing", format!("{real_gates:?} vs model {model_gates:?}"));
        }
        Ok(())
    }
}

fn history_text(ops: &[Op]) -> String {
    ops.iter().map(op_text).collect::<Vec<_>>().join(" ")
}

fn fingerprint_state(run: &Run, obs: &mut Obs) {
    obs.fp.u64(run.model.scopes.len() as u64);
    obs.fp.u64(run.model.symbols.len() as u64);
    for n in &run.names {
        obs.fp.u64(run.model.lookup(n).map(|x| x as u64 + 1).unwrap_or(0));
    }
}

/// DFS over all extensions of `prefix` up to `maxlen` operations; each visited history is one evaluation.
fn dfs(run: &Run, hist: &mut Vec<Op>, maxlen: usize, alphabet: &[Op], obs: &mut Obs, n: &mut u64, trace_fp: u64) {
    if hist.len() >= maxlen {
        return;
    }
    for (oi, op) in alphabet.iter().enumerate() {
        let mut next = Run {
            table: run.table.clone(),
            model: run.model.clone(),
            names: run.names.clone(),
        };
        hist.push(op.clone());
        let r = guard(|| next.step(op));
        *n += 1;
        let tfp = trace_fp.wrapping_mul(0x100000001b3).wrapping_add(oi as u64 + 1);
        match r {
            Ok(Ok(())) => {
                obs.fp.u64(tfp);
                fingerprint_state(&next, obs);
                let nontrivial = hist.len() >= 3;
                obs.done(nontrivial);
                match op {
                    Op::Bind(..) => obs.count("op:bind"),
                    Op::Exit => obs.count("op:exit"),
                    Op::Lookup(..) => obs.count("op:lookup"),
                    _ => obs.count("op:enter"),
                }
                dfs(&next, hist, maxlen, alphabet, obs, n, tfp);
            }
            Ok(Err((cell, d))) => {
                obs.violate(cell, format!("h:{} :: {d}", history_text(hist)));
                obs.done(true);
            }
            Err(p) => {
                obs.violate(format!("panic/{}", p.site()), format!("h:{} :: {}:{} {}", history_text(hist), p.file, p.line, p.msg));
                obs.done(true);
            }
        }
        hist.pop();
    }
}

fn check_start(obs: &mut Obs) -> Option<Run> {
    let r = guard(|| {
        let run = Run::new(&["a", "b", "c", "d", "$0", "$1", "euler", "x", "y", "id", "u1", "u3", "cx", "CX", "cphase", "cu", "ccx", "cswap"]);
        let c = run.compare("new");
        (run, c)
    });
    match r {
        Ok((run, Ok(()))) => {
            // built-ins present from the start
            for name in BUILTIN_CONSTS.iter().chain(["U"].iter()) {
                if run.table.lookup(name).is_err() {
                    obs.violate("new/builtin-missing", format!("{name} not bound in a fresh table"));
                }
            }
            // ... in every fresh table, however it is constructed
            match guard(|| {
                let d = SymbolTable::default();
                let missing: Vec<String> = BUILTIN_CONSTS.iter().chain(["U"].iter()).filter(|n| d.lookup(n).is_err()).map(|n| n.to_string()).collect();
                (d == SymbolTable::new(), missing, d.verif_scope_depth(), d.verif_num_symbols())
            }) {
                Ok((same, missing, depth, nsym)) => {
                    if !same || !missing.is_empty() || depth != 1 {
                        obs.violate("default/differs-from-new", format!("SymbolTable::default(): equal to new() {same}, built-ins missing {missing:?}, {depth} scopes, {nsym} symbols"));
                    }
                }
                Err(p) => obs.violate(format!("default/panic/{}", p.site()), format!("SymbolTable::default(): {}", p.msg)),
            }
            Some(run)
        }
        Ok((_, Err((cell, d)))) => {
            obs.violate(cell, format!("fresh table :: {d}"));
            None
        }
        Err(p) => {
            obs.violate(format!("panic/{}", p.site()), format!("SymbolTable::new: {}", p.msg));
            None
        }
    }
}

fn run_history(ops: &[Op], obs: &mut Obs) {
    let Some(mut run) = check_start(obs) else {
        obs.done(true);
        return;
    };
    let mut classes = (false, false, false, false); // shadow, dup, exit-with-bindings, lookup-after-exit
    for (i, op) in ops.iter().enumerate() {
        // observation classes
        match op {
            Op::Bind(n, _) | Op::LookupOrBind(n, _) => {
                if run.model.scopes.last().unwrap().contains_key(n) {
                    classes.1 = true;
                } else if run.model.lookup(n).is_some() {
                    classes.0 = true;
                }
            }
            Op::Exit => {
                if run.model.scopes.len() > 1 && !run.model.scopes.last().unwrap().is_empty() {
                    classes.2 = true;
                }
            }
            _ => {}
        }
        let r = guard(|| run.step(op));
        match r {
            Ok(Ok(())) => {}
            Ok(Err((cell, d))) => {
                obs.violate(cell, format!("h:{} (step {i}) :: {d}", history_text(&ops[..=i])));
                obs.done(true);
                return;
            }
            Err(p) => {
                obs.violate(format!("panic/{}", p.site()), format!("h:{} :: {}:{} {}", history_text(&ops[..=i]), p.file, p.line, p.msg));
                obs.done(true);
                return;
            }
        }
        obs.fp.u64(i as u64);
        fingerprint_state(&run, obs);
    }
    let _ = classes.3;
    if ops.contains(&Op::StdLib) {
        obs.class("standard-library-bound");
    }
    if classes.0 {
        obs.class("shadowing");
    }
    if classes.1 {
        obs.class("duplicate-in-scope");
    }
    if classes.2 {
        obs.class("exit-removes-bindings");
    }
    obs.note = format!(
        "{} ops applied; model and table agree after every step; final depth {}, {} symbols",
        ops.len(),
        run.model.scopes.len(),
        run.model.symbols.len()
    );
    obs.done(ops.len() >= 3);
}

fn random_history(r: &mut Rng) -> Vec<Op> {
    let n = r.range(1, 200) as usize;
    let names = ["a", "b", "c", "d"];
    let mut v = Vec::with_capacity(n);
    let mut depth = 1;
    for _ in 0..n {
        let mut name = r.pick(&names).to_string();
        let mut ty = *r.pick(&[Ty::Int, Ty::Int, Ty::Qubit, Ty::Gate, Ty::Todo, Ty::Undef]);
        // names that already mean something: the built-in constants and `U` (bound in the global scope
        // of a fresh table) and names of the standard library
        if r.chance(1, 6) {
            name = r.pick(&["pi", "τ", "euler", "U", "x", "y", "cx", "cswap", "u3"]).to_string();
        }
        if r.chance(1, 10) {
            name = r.pick(&["$0", "$1"]).to_string();
            ty = Ty::HwQubit;
        }
        let op = match r.below(12) {
            _ if r.chance(1, 50) => Op::StdLib,
            0 => Op::EnterLocal,
            1 => Op::EnterSub,
            2 | 3 => Op::Exit,
            4..=6 => Op::Bind(name, ty),
            7..=9 => Op::Lookup(name),
            _ => Op::LookupOrBind(name, ty),
        };
        match op {
            Op::EnterLocal | Op::EnterSub => depth += 1,
            Op::Exit if depth > 1 => depth -= 1,
            _ => {}
        }
        v.push(op);
    }
    v
}

const PREFIX_LEN: usize = 3;

impl Property for C19 {
    fn id(&self) -> &'static str {
        "C19"
    }
    fn rule(&self) -> &'static str {
        "History + executable model. (1) Bounded-exhaustive: every sequence of length <= N (6 quick, 8 thorough) over the 9 operations {enter Local, enter Subroutine, exit, bind a|b as int|qubit, lookup a|b}, explored as a DFS per length-3 prefix with the table cloned at each node; every visited history (prefix of a longer one) is one evaluation, after which depth, current-scope size, symbol count, look-ups of 8 names and every issued id are compared with the model. (2) Random histories up to length 200 over 4 names, 3 types and lookup_or_new_binding. Non-trivial: history length >= 3. Distinct: fingerprint of (operation trace, model state)."
    }
    fn streams(&self, tier: Tier, seed: u64) -> Vec<Stream> {
        let maxlen = tier.pick(6u64, 8u64);
        let nprefix = 9u64.pow(PREFIX_LEN as u32);
        let mut v = vec![Stream::new("exhaustive-dfs", nprefix + 1, true, move |i| {
            if i == nprefix {
                // the short histories (length < PREFIX_LEN) are covered by this one extra case
                format!("short:{PREFIX_LEN}")
            } else {
                format!("dfs:{i}:{maxlen}")
            }
        })];
        // the same exhaustive exploration with a built-in constant's name in place of `b` (one level less)
        let maxlen_b = tier.pick(5u64, 7u64);
        v.push(Stream::new("exhaustive-dfs-builtin-name", nprefix, true, move |i| format!("dfsb:{i}:{maxlen_b}")));
        // user gates named like library gates (one or two of them, in the global or a local scope),
        // then the library, then look-ups of every library name
        let ng = crate::model_resolve::STDGATES.len() as u64;
        v.push(Stream::new("standard-library-collision-table", (ng + ng * ng) * 2, true, move |i| {
            let local = i % 2 == 1;
            let k = i / 2;
            let name = |j: u64| crate::model_resolve::STDGATES[j as usize].0;
            let binds = if k < ng { format!("bg:{}", name(k)) } else { format!("bg:{} bg:{}", name((k - ng) % ng), name((k - ng) / ng)) };
            format!("h:{}{binds} STD l:x X STD", if local { "L " } else { "" })
        }));
        let nrand = tier.pick(20_000, 400_000);
        v.push(Stream::new("random-histories", nrand, false, move |i| {
            let mut r = Rng::new(mix(&[seed, 0x19, i]));
            format!("h:{}", history_text(&random_history(&mut r)))
        }));
        v
    }
    fn check(&self, input: &str, obs: &mut Obs) {
        let mut alphabet = alphabet9();
        let mut input = input;
        let owned;
        if let Some(rest) = input.strip_prefix("dfsb:") {
            // same block structure as dfs:, over {a, pi}
            for op in alphabet.iter_mut() {
                match op {
                    Op::Bind(n, _) | Op::Lookup(n) | Op::LookupOrBind(n, _) if n == "b" => *n = "pi".to_string(),
                    _ => {}
                }
            }
            owned = format!("dfs:{rest}");
            input = &owned;
        }
        if let Some(rest) = input.strip_prefix("h:") {
            // detail strings may carry " :: ..." after the history
            let rest = rest.split(" :: ").next().unwrap_or("").split(" (step").next().unwrap_or("");
            let mut ops = Vec::new();
            for t in rest.split_whitespace() {
                match parse_op(t) {
                    Some(op) => ops.push(op),
                    None => {
                        obs.inconclusive(format!("bad op {t}"));
                        return;
                    }
                }
            }
            run_history(&ops, obs);
            return;
        }
        if let Some(rest) = input.strip_prefix("short:") {
            let k: usize = rest.parse().unwrap_or(3);
            // all histories shorter than the DFS prefix length
            let Some(run) = check_start(obs) else { return };
            let mut hist = Vec::new();
            let mut n = 0;
            dfs(&run, &mut hist, k - 1, &alphabet, obs, &mut n, 7);
            obs.note = format!("{n} short histories");
            return;
        }
        if let Some(rest) = input.strip_prefix("dfs:") {
            let mut it = rest.split(':');
            let mut idx: u64 = it.next().unwrap().parse().unwrap();
            let maxlen: usize = it.next().unwrap().parse().unwrap();
            let Some(mut run) = check_start(obs) else { return };
            let mut hist = Vec::new();
            for _ in 0..PREFIX_LEN {
                hist.push(alphabet[(idx % 9) as usize].clone());
                idx /= 9;
            }
            // apply the prefix (its own prefixes are checked by the short: case and sibling blocks)
            for (i, op) in hist.clone().iter().enumerate() {
                let r = guard(|| run.step(op));
                match r {
                    Ok(Ok(())) => {}
                    Ok(Err((cell, d))) => {
                        obs.violate(cell, format!("h:{} :: {d}", history_text(&hist[..=i])));
                        obs.done(true);
                        return;
                    }
                    Err(p) => {
                        obs.violate(format!("panic/{}", p.site()), format!("h:{} :: {}", history_text(&hist[..=i]), p.msg));
                        obs.done(true);
                        return;
                    }
                }
            }
            obs.fp.u64(idx);
            fingerprint_state(&run, obs);
            obs.done(true);
            let mut n = 1u64;
            let tfp = crate::rng::hash_str(&history_text(&hist));
            dfs(&run, &mut hist, maxlen, &alphabet, obs, &mut n, tfp);
            obs.note = format!("prefix [{}]: {n} histories up to length {maxlen}, all agree with the model", history_text(&hist));
            return;
        }
        obs.inconclusive("unrecognised input spec");
    }
    fn mandatory_classes(&self, _tier: Tier) -> Vec<&'static str> {
        vec!["shadowing", "duplicate-in-scope", "exit-removes-bindings", "standard-library-bound"]
    }
}

//! C17 — analysis is invariant under layout and renaming, one-pass and deterministic.

use super::semcommon::*;
use crate::gen::modelgen::{GenCfg, MG};
use crate::model::*;
use crate::model_resolve::{BUILTIN_CONSTS, STDGATES};
use crate::model_shrink::*;
use crate::rng::{mix, Rng};
use crate::worker::{guard, Obs, Property, Stream, Tier};
use oq3_semantics::symbols::SymbolType;
use oq3_semantics::syntax_to_semantics::ParseResult;
use oq3_source_file::SourceString;
use std::collections::HashMap;

pub struct C17;

const FRESH: &[&str] = &[
    "pragmatic", "OPENQASMx", "s1", "dtx", "im_", "π2", "Δq", "变量", "inv2", "ns_", "measured", "e3", "xF", "qubits", "_", "__a", "gat", "letter", "dimension", "O",
    // keyword / directive look-alikes followed by a digit or an underscore, leading underscores, unit look-alikes
    "pragma2", "pragma7x", "pragma_1", "_q", "_tmp", "void1", "u", "μs", "µ", "gate1", "def_", "if0", "include2", "b0", "o7", "x0F", "e", "E1", "im2",
    // characters that continue an identifier without being able to start one (combining mark of an NFD
    // spelling, non-ASCII digits, an Indic vowel sign, the middle dot, the undertie)
    "re\u{301}g", "count\u{ff11}", "\u{915}\u{93f}", "col\u{b7}l", "a\u{203f}b", "x\u{663}",
];

fn is_reserved(n: &str) -> bool {
    BUILTIN_CONSTS.contains(&n) || n == "U" || STDGATES.iter().any(|g| g.0 == n)
}

fn rename_expr(e: &E, m: &HashMap<String, String>) -> E {
    let rn = |n: &String| m.get(n).cloned().unwrap_or_else(|| n.clone());
    let k = match &e.k {
        EK::Ident(n) => EK::Ident(rn(n)),
        EK::Unary(o, a) => EK::Unary(*o, Box::new(rename_expr(a, m))),
        EK::Binary(o, l, r) => EK::Binary(*o, Box::new(rename_expr(l, m)), Box::new(rename_expr(r, m))),
        EK::Cast(t, a) => EK::Cast(t.clone(), Box::new(rename_expr(a, m))),
        EK::Call(n, a) => EK::Call(rn(n), a.iter().map(|x| rename_expr(x, m)).collect()),
        EK::Index(b, ixs) => EK::Index(
            Box::new(rename_expr(b, m)),
            ixs.iter()
                .map(|ix| match ix {
                    MIndex::List(es) => MIndex::List(es.iter().map(|x| rename_expr(x, m)).collect()),
                    MIndex::Set(es) => MIndex::Set(es.iter().map(|x| rename_expr(x, m)).collect()),
                })
                .collect(),
        ),
        EK::Measure(q) => EK::Measure(Box::new(rename_expr(q, m))),
        EK::Range(a, s, b) => EK::Range(Box::new(rename_expr(a, m)), s.as_ref().map(|x| Box::new(rename_expr(x, m))), Box::new(rename_expr(b, m))),
        other => other.clone(),
    };
    E { id: e.id, k }
}

fn rename_body(b: &Body, m: &HashMap<String, String>) -> Body {
    match b {
        Body::Block(v) => Body::Block(v.iter().map(|s| rename_stmt(s, m)).collect()),
        Body::Single(s) => Body::Single(Box::new(rename_stmt(s, m))),
    }
}

fn rename_mods(ms: &[Modifier], m: &HashMap<String, String>) -> Vec<Modifier> {
    ms.iter()
        .map(|x| match x {
            Modifier::Inv => Modifier::Inv,
            Modifier::Pow(e) => Modifier::Pow(rename_expr(e, m)),
            Modifier::Ctrl(e) => Modifier::Ctrl(e.as_ref().map(|e| rename_expr(e, m))),
            Modifier::NegCtrl(e) => Modifier::NegCtrl(e.as_ref().map(|e| rename_expr(e, m))),
        })
        .collect()
}

pub fn rename_stmt(s: &S, m: &HashMap<String, String>) -> S {
    let rn = |n: &String| m.get(n).cloned().unwrap_or_else(|| n.clone());
    let re = |e: &E| rename_expr(e, m);
    let rl = |v: &Vec<S>| v.iter().map(|s| rename_stmt(s, m)).collect::<Vec<S>>();
    let k = match &s.k {
        SK::Decl(c, t, n, i) => SK::Decl(*c, t.clone(), rn(n), i.as_ref().map(re)),
        SK::Qubit(n, z) => SK::Qubit(rn(n), *z),
        SK::OldReg(q, n, z) => SK::OldReg(*q, rn(n), *z),
        SK::Io(i, t, n) => SK::Io(*i, t.clone(), rn(n)),
        SK::Gate(n, ps, qs, b) => SK::Gate(rn(n), ps.as_ref().map(|p| p.iter().map(rn).collect()), qs.iter().map(rn).collect(), rl(b)),
        SK::Def(n, ps, r, b) => SK::Def(rn(n), ps.iter().map(|(t, p)| (t.clone(), rn(p))).collect(), r.clone(), rl(b)),
        SK::GateCall(ms, n, a, o) => SK::GateCall(rename_mods(ms, m), rn(n), a.as_ref().map(|a| a.iter().map(re).collect()), o.iter().map(re).collect()),
        SK::GPhase(ms, a) => SK::GPhase(rename_mods(ms, m), re(a)),
        SK::MeasureStmt(q) => SK::MeasureStmt(re(q)),
        SK::MeasureArrow(q, c) => SK::MeasureArrow(re(q), re(c)),
        SK::Reset(q) => SK::Reset(re(q)),
        SK::Barrier(o) => SK::Barrier(o.iter().map(re).collect()),
        SK::Delay(d, o) => SK::Delay(re(d), o.iter().map(re).collect()),
        SK::If(c, t, e) => SK::If(re(c), rename_body(t, m), e.as_ref().map(|b| rename_body(b, m))),
        SK::While(c, b) => SK::While(re(c), rename_body(b, m)),
        SK::For(t, v, it, b) => SK::For(
            t.clone(),
            rn(v),
            match it {
                Iterable::Range(r) => Iterable::Range(re(r)),
                Iterable::Set(es) => Iterable::Set(es.iter().map(re).collect()),
                Iterable::Expr(e) => Iterable::Expr(re(e)),
            },
            rename_body(b, m),
        ),
        SK::Switch(c, cs, d) => SK::Switch(re(c), cs.iter().map(|(v, b)| (v.iter().map(re).collect(), rl(b))).collect(), d.as_ref().map(rl)),
        SK::Return(e) => SK::Return(e.as_ref().map(re)),
        SK::Assign(t, o, r) => SK::Assign(re(t), *o, re(r)),
        SK::Alias(n, e) => SK::Alias(rn(n), re(e)),
        SK::ExprStmt(e) => SK::ExprStmt(re(e)),
        other => other.clone(),
    };
    S { id: s.id, k }
}

fn collect_names_expr(e: &E, out: &mut Vec<String>) {
    match &e.k {
        EK::Ident(n) => out.push(n.clone()),
        EK::Unary(_, a) | EK::Cast(_, a) | EK::Measure(a) => collect_names_expr(a, out),
        EK::Binary(_, l, r) => {
            collect_names_expr(l, out);
            collect_names_expr(r, out);
        }
        EK::Call(n, a) => {
            out.push(n.clone());
            a.iter().for_each(|x| collect_names_expr(x, out));
        }
        EK::Index(b, ixs) => {
            collect_names_expr(b, out);
            for ix in ixs {
                match ix {
                    MIndex::List(es) | MIndex::Set(es) => es.iter().for_each(|x| collect_names_expr(x, out)),
                }
            }
        }
        EK::Range(a, s, b) => {
            collect_names_expr(a, out);
            if let Some(s) = s {
                collect_names_expr(s, out);
            }
            collect_names_expr(b, out);
        }
        _ => {}
    }
}

/// All identifier names written in the program, via the (name-preserving) identity renaming.
fn names_of(prog: &[S]) -> Vec<String> {
    // cheap trick: print tightly and pick identifier-like words that are names of the pools
    let mut out = Vec::new();
    fn st(s: &S, out: &mut Vec<String>) {
        let mut ex = |e: &E, out: &mut Vec<String>| collect_names_expr(e, out);
        match &s.k {
            SK::Decl(_, _, n, i) => {
                out.push(n.clone());
                if let Some(e) = i {
                    ex(e, out)
                }
            }
            SK::Qubit(n, _) | SK::OldReg(_, n, _) | SK::Io(_, _, n) => out.push(n.clone()),
            SK::Gate(n, ps, qs, b) => {
                out.push(n.clone());
                if let Some(ps) = ps {
                    out.extend(ps.iter().cloned());
                }
                out.extend(qs.iter().cloned());
                b.iter().for_each(|s| st(s, out));
            }
            SK::Def(n, ps, _, b) => {
                out.push(n.clone());
                out.extend(ps.iter().map(|p| p.1.clone()));
                b.iter().for_each(|s| st(s, out));
            }
            SK::GateCall(ms, n, a, o) => {
                out.push(n.clone());
                for m in ms {
                    match m {
                        Modifier::Pow(e) => ex(e, out),
                        Modifier::Ctrl(Some(e)) | Modifier::NegCtrl(Some(e)) => ex(e, out),
                        _ => {}
                    }
                }
                if let Some(a) = a {
                    a.iter().for_each(|e| ex(e, out));
                }
                o.iter().for_each(|e| ex(e, out));
            }
            SK::GPhase(_, a) => ex(a, out),
            SK::MeasureStmt(q) | SK::Reset(q) => ex(q, out),
            SK::MeasureArrow(q, c) => {
                ex(q, out);
                ex(c, out)
            }
            SK::Barrier(o) => o.iter().for_each(|e| ex(e, out)),
            SK::Delay(d, o) => {
                ex(d, out);
                o.iter().for_each(|e| ex(e, out))
            }
            SK::If(c, t, e) => {
                ex(c, out);
                t.stmts().iter().for_each(|s| st(s, out));
                if let Some(e) = e {
                    e.stmts().iter().for_each(|s| st(s, out));
                }
            }
            SK::While(c, b) => {
                ex(c, out);
                b.stmts().iter().for_each(|s| st(s, out));
            }
            SK::For(_, v, it, b) => {
                out.push(v.clone());
                match it {
                    Iterable::Range(r) => ex(r, out),
                    Iterable::Set(es) => es.iter().for_each(|e| ex(e, out)),
                    Iterable::Expr(e) => ex(e, out),
                }
                b.stmts().iter().for_each(|s| st(s, out));
            }
            SK::Switch(c, cs, d) => {
                ex(c, out);
                for (v, b) in cs {
                    v.iter().for_each(|e| ex(e, out));
                    b.iter().for_each(|s| st(s, out));
                }
                if let Some(d) = d {
                    d.iter().for_each(|s| st(s, out));
                }
            }
            SK::Return(Some(e)) | SK::ExprStmt(e) => ex(e, out),
            SK::Assign(t, _, r) => {
                ex(t, out);
                ex(r, out)
            }
            SK::Alias(n, e) => {
                out.push(n.clone());
                ex(e, out)
            }
            _ => {}
        }
    }
    prog.iter().for_each(|s| st(s, &mut out));
    out.sort();
    out.dedup();
    out
}

struct Snapshot {
    res: ParseResult<SourceString>,
    kinds: Vec<String>,
    payloads: Vec<String>,
    text: String,
}

fn snapshot(prog: &[S], lay: &Layout) -> Result<Snapshot, String> {
    match analyse(prog, lay) {
        Err(AErr::Rejected(m)) => Err(format!("rejected by the parser (C04): {m}")),
        Err(AErr::Panic(site, _)) => Err(format!("analysis panicked (C03): {site}")),
        Ok(a) => {
            let kinds: Vec<String> = a.res.semantic_errors().iter().map(diag_kind).collect();
            let payloads: Vec<String> = a.res.semantic_errors().iter().map(|e| format!("{:?}", e.kind())).collect();
            Ok(Snapshot {
                text: a.printed.text,
                res: a.res,
                kinds,
                payloads,
            })
        }
    }
}

// ---------------------------------------------------------------- token sequences under two trivia layouts
//
// Layout invariance does not depend on the program being valid: the same tokens separated by
// blanks or by comments must be parsed into the same tree shape, get the same syntax-error status,
// and - when clean - the same graph.  (A re-layout of valid programs alone never separates two
// punctuation characters that would be a syntax error when separated by a blank.)

const TOK_EXTRA: &[&str] = &["ns", "im", "dt", "us", "µs", "b", "q", "0x1F", "2", "3", "x", "true", "pi", "$1", "\"1_0\"", "'01'", "1e3", "2.", ".5", "10", ".25", "ns", "im"];
const TOK_SEPS_B: &[&str] = &["/**/", " /* c */ ", "\n", "\t", "  ", "/* a *//* b */", "//x\n", " /***/ ", "/*/ y */", "\u{000B}", "\u{000C}\u{0085}", "\u{2028}", "\r\n"];

fn tok_alphabet() -> Vec<String> {
    let mut v: Vec<String> = super::c01::full_alphabet()
        .iter()
        // not the line-oriented lexemes (a pragma runs to the end of its line by definition)
        .filter(|t| !t.ends_with('\n') && !t.starts_with("OPENQASM") && t.as_str() != "§" && t.as_str() != "#" && t.as_str() != "pragma")
        .cloned()
        .collect();
    v.extend(TOK_EXTRA.iter().map(|s| s.to_string()));
    v
}

fn tree_skeleton(text: &str) -> (Vec<String>, usize) {
    let p = oq3_syntax::SourceFile::parse(text);
    let mut out = Vec::new();
    for ev in p.syntax_node().preorder_with_tokens() {
        if let oq3_syntax::WalkEvent::Enter(el) = ev {
            if el.kind().is_trivia() {
                continue;
            }
            match el {
                oq3_syntax::NodeOrToken::Node(n) => out.push(format!("{:?}", n.kind())),
                oq3_syntax::NodeOrToken::Token(t) => out.push(format!("{:?}:{}", t.kind(), t.text())),
            }
        }
    }
    (out, p.errors().len())
}

/// The same text through the string and the file entry points with the same search path: part of the
/// program sits in an include file that only the search path reaches (main.qasm lives elsewhere).
fn entry_point_case(seed: u64, obs: &mut Obs) {
    use oq3_semantics::syntax_to_semantics::{parse_source_file_with_search, parse_source_string_with_path_search};
    let mut r = Rng::new(seed);
    let prog = {
        let mut g = MG::new(&mut r, GenCfg { max_stmts: 6, ..GenCfg::semantic() });
        g.program()
    };
    let lay = sem_layout(seed, seed % 2 == 0);
    let j = 1 + r.usize(prog.len().max(1));
    let j = j.min(prog.len());
    let inner = print_program(&prog[..j], &lay).text;
    let rest = print_program(&prog[j..], &lay).text;
    let root = scratch_dir("c17");
    let (libdir, maindir) = (root.join("lib"), root.join("work"));
    let _ = std::fs::create_dir_all(&libdir);
    let _ = std::fs::create_dir_all(&maindir);
    // a nested include as well: lib/first.inc includes lib/second.inc
    let k = r.usize(j + 1).min(j);
    let second = print_program(&prog[..k], &lay).text;
    let first_rest = print_program(&prog[k..j], &lay).text;
    let _ = inner;
    let _ = std::fs::write(libdir.join("second.inc"), &second);
    let _ = std::fs::write(libdir.join("first.inc"), format!("include \"second.inc\";\n{first_rest}"));
    let main_text = format!("include \"first.inc\";\n{rest}");
    let main_path = maindir.join("main.qasm");
    let _ = std::fs::write(&main_path, &main_text);
    obs.fp.str(&main_text);
    obs.fp.str(&second);
    let flat = |l: &oq3_semantics::semantic_error::SemanticErrorList| -> Vec<String> {
        fn go(l: &oq3_semantics::semantic_error::SemanticErrorList, out: &mut Vec<String>) {
            out.extend(l.iter().map(|e| format!("{:?}", e.kind())));
            for i in l.include_errors() {
                go(i, out);
            }
        }
        let mut v = Vec::new();
        go(l, &mut v);
        v
    };
    let (ld, mt, mp) = (libdir.clone(), main_text.clone(), main_path.clone());
    let r1 = guard(move || {
        let a = parse_source_string_with_path_search(&mt, Some("main.qasm"), Some(&[ld.clone()]));
        let b = parse_source_file_with_search(&mp, Some(&[ld.clone()]));
        let (ka, kb) = (flat(a.semantic_errors()), flat(b.semantic_errors()));
        (a.any_syntax_errors(), b.any_syntax_errors(), a.program() == b.program(), a.symbol_table() == b.symbol_table(), ka, kb, a.program().stmts().len())
    });
    let _ = std::fs::remove_dir_all(&root);
    match r1 {
        Err(p) => obs.inconclusive(format!("analysis panicked (C03): {}", p.site())),
        Ok((sa, sb, peq, teq, ka, kb, n)) => {
            if sa || sb {
                if sa != sb {
                    obs.violate("entry-points/syntax-error-status-differs", format!("{main_text:?}: string entry {sa}, file entry {sb}"));
                } else {
                    obs.inconclusive("rejected by the parser (C04)");
                }
                return;
            }
            if !peq || !teq || ka != kb {
                let what = if ka != kb { "diagnostics" } else if !teq { "symbols" } else { "graph" };
                obs.violate(format!("entry-points/string-vs-file-with-search-path/{what}"), format!("main {main_text:?} (lib/first.inc includes lib/second.inc {second:?}): program equal {peq}, symbols equal {teq}, diagnostics {ka:?} vs {kb:?}"));
            }
            obs.class("entry-points-agree");
            obs.note = format!("{n} statements: string and file entry points with the same search path agree");
            obs.done(n >= 1);
        }
    }
}

fn token_relayout_case(seed: u64, obs: &mut Obs) {
    let mut r = Rng::new(seed);
    let al = tok_alphabet();
    let n = r.range(2, 9) as usize;
    let mut toks: Vec<String> = Vec::new();
    for _ in 0..n {
        // half of the draws from the short punctuation/literal tail of the alphabet
        let t = if r.bool() { r.pick(&al[al.len() - 60..]).clone() } else { r.pick(&al).clone() };
        toks.push(t);
    }
    let a: String = toks.join(" ");
    let mut b = String::new();
    for (i, t) in toks.iter().enumerate() {
        if i > 0 {
            // a `/` token directly followed by a comment opener would become a line comment
            if b.ends_with('/') {
                b.push(' ');
            }
            b.push_str(*r.pick(TOK_SEPS_B));
        }
        b.push_str(t);
    }
    // third layout: a unit directly after a decimal number needs no separator at all
    let is_unit = |t: &str| matches!(t, "ns" | "im" | "dt" | "us" | "ms" | "s" | "µs");
    let is_dec_number = |t: &str| t.starts_with(|c: char| c.is_ascii_digit() || c == '.') && !t.starts_with("0x") && t.len() <= 4 && t != ".";
    let mut glued = String::new();
    let mut any_glued = false;
    for (i, t) in toks.iter().enumerate() {
        if i > 0 {
            if is_unit(t) && is_dec_number(&toks[i - 1]) {
                any_glued = true;
            } else {
                glued.push(' ');
            }
        }
        glued.push_str(t);
    }
    let b = if any_glued && r.bool() { glued } else { b };
    obs.fp.str(&a);
    let cellkey = |what: &str| format!("token-relayout/{what}");
    let r1 = guard(|| (tree_skeleton(&a), tree_skeleton(&b)));
    let ((ska, ea), (skb, eb)) = match r1 {
        Ok(x) => x,
        Err(p) => {
            obs.inconclusive(format!("parse panicked (C01): {}", p.site()));
            return;
        }
    };
    if ska != skb || (ea == 0) != (eb == 0) {
        let first = ska.iter().zip(skb.iter()).position(|(x, y)| x != y).unwrap_or(ska.len().min(skb.len()));
        let at = ska.get(first).cloned().unwrap_or_else(|| "end".into());
        let at_kind = at.split(':').next().unwrap_or("").to_string();
        obs.violate(
            cellkey(&format!("parse-differs/{at_kind}")),
            format!("{a:?} ({ea} syntax errors) vs {b:?} ({eb} syntax errors): trees differ at element {first}: {:?} vs {:?}", ska.get(first), skb.get(first)),
        );
        obs.done(true);
        return;
    }
    let r2 = guard(|| {
        let ra = oq3_semantics::syntax_to_semantics::parse_source_string(&a, Some("c17.qasm"));
        let rb = oq3_semantics::syntax_to_semantics::parse_source_string(&b, Some("c17.qasm"));
        let ka: Vec<String> = ra.semantic_errors().iter().map(|e| format!("{:?}", e.kind())).collect();
        let kb: Vec<String> = rb.semantic_errors().iter().map(|e| format!("{:?}", e.kind())).collect();
        (ra.any_syntax_errors(), rb.any_syntax_errors(), ra.program() == rb.program(), ra.symbol_table() == rb.symbol_table(), ka, kb)
    });
    match r2 {
        Err(p) => obs.inconclusive(format!("analysis panicked (C03): {}", p.site())),
        Ok((sa, sb, peq, teq, ka, kb)) => {
            if sa != sb {
                obs.violate(cellkey("syntax-error-status-differs"), format!("{a:?}: {sa} vs {b:?}: {sb}"));
            } else if !peq || !teq || ka != kb {
                obs.violate(cellkey("analysis-differs"), format!("{a:?} vs {b:?}: program equal {peq}, symbols equal {teq}, diagnostics {ka:?} vs {kb:?}"));
            }
            obs.class("token-relayout");
            if !sa {
                obs.count("token-relayout:clean-sequences");
            }
            obs.note = format!("{a:?} / {b:?}: {} tree elements, syntax errors {sa}", ska.len());
            obs.done(true);
        }
    }
}

fn first_diff_stmt(a: &oq3_semantics::asg::Program, b: &oq3_semantics::asg::Program) -> String {
    for (i, (x, y)) in a.stmts().iter().zip(b.stmts()).enumerate() {
        if x != y {
            let k = format!("{x:?}");
            return format!("statement {i} ({})", k.split(['(', ' ']).next().unwrap_or(""));
        }
    }
    format!("statement count {} vs {}", a.stmts().len(), b.stmts().len())
}

fn stmt_kind_at(p: &oq3_semantics::asg::Program, b: &oq3_semantics::asg::Program) -> String {
    for (x, y) in p.stmts().iter().zip(b.stmts()) {
        if x != y {
            let k = format!("{x:?}");
            return k.split(['(', ' ']).next().unwrap_or("").to_string();
        }
    }
    "count".into()
}

enum Out {
    Held(usize),
    Violated(String, String),
    Inconclusive(String),
}

fn check(prog: &[S], seed: u64) -> Out {
    let mut r = Rng::new(seed ^ 0x17);
    let base_lay = sem_layout(seed, false);
    let base = match snapshot(prog, &base_lay) {
        Ok(s) => s,
        Err(e) => return Out::Inconclusive(e),
    };
    let mut relations = 0;
    // (iv) determinism
    match snapshot(prog, &base_lay) {
        Ok(again) => {
            if again.res.program() != base.res.program() || again.res.symbol_table() != base.res.symbol_table() || again.payloads != base.payloads {
                return Out::Violated("deterministic/differs".into(), format!("{:?}: two analyses of the same text differ", base.text.trim()));
            }
            relations += 1;
        }
        Err(e) => return Out::Violated("deterministic/second-run-failed".into(), e),
    }
    // (i) re-layout
    for k in 0..4u64 {
        let lay = Layout {
            trivia: *r.pick(&[Trivia::Dense, Trivia::Dense, Trivia::Lines, Trivia::Tight]),
            // parentheses are tokens, not layout: the re-layouts only change trivia
            redundant_parens: 0,
            paren_assign_rhs: true,
            paren_deviating: true,
            trailing_commas: 0,
            seed: mix(&[seed, k, 0xA]),
        };
        match snapshot(prog, &lay) {
            Err(e) => {
                return Out::Violated("relayout/analysis-fails".into(), format!("{:?} analyses, re-laid-out {:?} does not: {e}", base.text.trim(), print_program(prog, &lay).text));
            }
            Ok(s) => {
                if s.res.program() != base.res.program() {
                    return Out::Violated(
                        format!("relayout/program/{}", stmt_kind_at(base.res.program(), s.res.program())),
                        format!("{:?} vs {:?}: graphs differ at {}", base.text.trim(), s.text.trim(), first_diff_stmt(base.res.program(), s.res.program())),
                    );
                }
                if s.res.symbol_table() != base.res.symbol_table() {
                    return Out::Violated("relayout/symbol-table".into(), format!("{:?} vs {:?}", base.text.trim(), s.text.trim()));
                }
                if s.payloads != base.payloads {
                    return Out::Violated("relayout/diagnostics".into(), format!("{:?} -> {:?} ; {:?} -> {:?}", base.text.trim(), base.payloads, s.text.trim(), s.payloads));
                }
                relations += 1;
            }
        }
    }
    // (ii) injective renaming of user identifiers
    let names: Vec<String> = names_of(prog).into_iter().filter(|n| !is_reserved(n) && !n.starts_with('$')).collect();
    for k in 0..3u64 {
        let mut pool: Vec<String> = FRESH.iter().map(|s| s.to_string()).collect();
        // shuffle
        for i in (1..pool.len()).rev() {
            let j = r.usize(i + 1);
            pool.swap(i, j);
        }
        let mut map = HashMap::new();
        for (i, n) in names.iter().enumerate() {
            let fresh = if i < pool.len() { pool[i].clone() } else { format!("v{i}_{k}") };
            if fresh != "_" || true {
                map.insert(n.clone(), if fresh == "_" { format!("_{i}") } else { fresh });
            }
        }
        let renamed: Vec<S> = prog.iter().map(|s| rename_stmt(s, &map)).collect();
        match snapshot(&renamed, &base_lay) {
            Err(e) => return Out::Violated("rename/analysis-fails".into(), format!("{:?} analyses, renamed {:?} does not: {e}", base.text.trim(), print_program(&renamed, &base_lay).text)),
            Ok(s) => {
                if s.res.program() != base.res.program() {
                    return Out::Violated(
                        format!("rename/program/{}", stmt_kind_at(base.res.program(), s.res.program())),
                        format!("{:?} vs {:?}: graphs differ at {}", base.text.trim(), s.text.trim(), first_diff_stmt(base.res.program(), s.res.program())),
                    );
                }
                // symbol tables equal up to the renaming, id by id
                let (ta, tb) = (base.res.symbol_table(), s.res.symbol_table());
                if ta.verif_num_symbols() != tb.verif_num_symbols() {
                    return Out::Violated("rename/symbol-count".into(), format!("{} vs {}", ta.verif_num_symbols(), tb.verif_num_symbols()));
                }
                for i in 0..ta.verif_num_symbols() {
                    let (sa, sb) = (&ta[&ta.verif_symbol_id(i)], &tb[&tb.verif_symbol_id(i)]);
                    let want = map.get(sa.name()).cloned().unwrap_or_else(|| sa.name().to_string());
                    if sb.name() != want || sa.symbol_type() != sb.symbol_type() {
                        return Out::Violated("rename/symbol".into(), format!("symbol {i}: {:?}:{:?} vs {:?}:{:?} (expected name {want:?})", sa.name(), sa.symbol_type(), sb.name(), sb.symbol_type()));
                    }
                }
                for (n, f) in &map {
                    let a = ta.lookup(n).map(|x| ta.verif_symbol_ordinal(&x.symbol_id())).ok();
                    let b = tb.lookup(f).map(|x| tb.verif_symbol_ordinal(&x.symbol_id())).ok();
                    if a != b {
                        return Out::Violated("rename/global-lookup".into(), format!("lookup({n}) = {a:?} but lookup({f}) = {b:?} after renaming"));
                    }
                }
                if s.kinds != base.kinds {
                    return Out::Violated("rename/diagnostics".into(), format!("{:?} -> {:?} ; {:?} -> {:?}", base.text.trim(), base.kinds, s.text.trim(), s.kinds));
                }
                relations += 1;
            }
        }
    }
    // (iii) one-pass: every prefix at a top-level statement boundary
    for cut in 1..prog.len() {
        if matches!(prog[cut - 1].k, SK::Annotation(_)) {
            continue;
        }
        let p = &prog[..cut];
        match snapshot(p, &base_lay) {
            Err(e) => return Out::Inconclusive(format!("prefix does not analyse: {e}")),
            Ok(s) => {
                let (fp, ff) = (s.res.program().stmts(), base.res.program().stmts());
                if fp.len() > ff.len() || fp != &ff[..fp.len()] {
                    return Out::Violated(
                        format!("append/program/{}", stmt_kind_name(&prog[cut].k)),
                        format!("prefix {:?} of {:?}: statements of the prefix are not a prefix of the whole ({} vs {})", s.text.trim(), base.text.trim(), fp.len(), ff.len()),
                    );
                }
                let (tp, tf) = (s.res.symbol_table(), base.res.symbol_table());
                if tp.verif_num_symbols() > tf.verif_num_symbols() {
                    return Out::Violated("append/symbol-count".into(), format!("{} > {}", tp.verif_num_symbols(), tf.verif_num_symbols()));
                }
                for i in 0..tp.verif_num_symbols() {
                    let (sa, sb) = (&tp[&tp.verif_symbol_id(i)], &tf[&tf.verif_symbol_id(i)]);
                    if sa != sb {
                        return Out::Violated("append/symbol".into(), format!("symbol {i}: {sa:?} in the prefix, {sb:?} in the whole"));
                    }
                }
                if s.payloads.len() > base.payloads.len() || s.payloads[..] != base.payloads[..s.payloads.len()] {
                    return Out::Violated(
                        format!("append/diagnostics/{}", stmt_kind_name(&prog[cut].k)),
                        format!("prefix {:?} -> {:?}; whole {:?} -> {:?}", s.text.trim(), s.payloads, base.text.trim(), base.payloads),
                    );
                }
                relations += 1;
            }
        }
    }
    Out::Held(relations)
}

impl Property for C17 {
    fn id(&self) -> &'static str {
        "C17"
    }
    fn rule(&self) -> &'static str {
        "Relational (metamorphic) monitor over pairs of real analyses of model programs (valid or with semantic faults, `avoid` profile so that analyses complete): (iv) the same text twice; (i) 4 random re-layouts (dense comments of every flavour between any two tokens, line-broken, tight) - Program and SymbolTable compared with their PartialEq, diagnostics by kind and payload in order; (ii) 3 random injective renamings of user identifiers into a hostile pool (look-alikes of keywords/units, Unicode; never built-ins or standard gate names) - Program equal, symbol tables equal id by id up to the renaming (name, type), lookups of old/new names agree, diagnostic kinds equal; (iii) every split point at a top-level statement boundary (not after an annotation) - statements, symbols and diagnostics of the prefix are a prefix of those of the whole. One evaluation = one base program with all its related analyses. Non-trivial: >= 5 relations checked. Distinct: program skeleton."
    }
    fn streams(&self, tier: Tier, seed: u64) -> Vec<Stream> {
        vec![
            Stream::new("random-programs", tier.pick(6_000, 300_000), false, move |i| format!("rand:{}", mix(&[seed, 0xC17, 1, i]))),
            Stream::new("random-programs-with-name-collisions", tier.pick(4_000, 200_000), false, move |i| format!("coll:{}", mix(&[seed, 0xC17, 2, i]))),
            Stream::new("string-and-file-entry-points-with-a-search-path", tier.pick(1_500, 60_000), false, move |i| format!("entry:{}", mix(&[seed, 0xC17, 4, i]))),
            Stream::new("token-sequences-under-two-trivia-layouts", tier.pick(150_000, 5_000_000), false, move |i| format!("tok:{}", mix(&[seed, 0xC17, 3, i]))),
        ]
    }
    fn check(&self, input: &str, obs: &mut Obs) {
        let parts: Vec<&str> = input.split(':').collect();
        let seed: u64 = parts.get(1).and_then(|x| x.parse().ok()).unwrap_or(0);
        if parts[0] == "tok" {
            token_relayout_case(seed, obs);
            return;
        }
        if parts[0] == "entry" {
            entry_point_case(seed, obs);
            return;
        }
        let mut r = Rng::new(seed);
        let cfg = match parts[0] {
            "rand" => GenCfg { max_stmts: 7, ..GenCfg::semantic() },
            "coll" => GenCfg {
                names: vec!["a", "b", "x", "f", "pi", "U", "h"],
                qnames: vec!["q", "r", "a"],
                max_stmts: 7,
                ..GenCfg::semantic()
            },
            _ => {
                obs.inconclusive("unrecognised input spec");
                return;
            }
        };
        let mut g = MG::new(&mut r, cfg);
        let mut prog = g.program();
        // now and then an include of a file that does not exist (a diagnostic, not a syntax error):
        // what was diagnosed before it stays where it was
        if g.r.chance(1, 4) && !prog.is_empty() {
            let at = g.r.usize(prog.len() + 1);
            let after_annotation = at > 0 && matches!(prog[at - 1].k, SK::Annotation(_));
            if !after_annotation {
                let inc = g.s(SK::Include("no_such_file_c17.inc".into()));
                prog.insert(at, inc);
            }
        }
        obs.fp.str(&skel_program(&prog));
        let out = match guard(|| check(&prog, seed)) {
            Ok(o) => o,
            Err(p) => Out::Inconclusive(format!("monitor panicked: {} {}", p.site(), p.msg)),
        };
        match out {
            Out::Held(n) => {
                obs.count_n("relations-checked", n as u64);
                obs.class("relayout");
                obs.class("rename");
                if prog.len() > 1 {
                    obs.class("append");
                }
                obs.note = format!("{} statements: {n} related analyses agree", prog.len());
                obs.done(n >= 5);
            }
            Out::Inconclusive(why) => {
                obs.count(&format!("inconclusive:{}", why.split(':').next().unwrap_or("")));
                obs.inconclusive(why);
            }
            Out::Violated(cell0, _) => {
                let mut pred = |p: &[S]| matches!(guard(|| check(p, seed)), Ok(Out::Violated(c, _)) if c == cell0);
                let min = shrink_program(&prog, &mut pred, 300);
                let d = match guard(|| check(&min, seed)) {
                    Ok(Out::Violated(_, d)) => d,
                    _ => String::new(),
                };
                obs.violate(format!("{cell0}/{}", skel_program(&min)), d);
                obs.done(true);
            }
        }
    }
    fn mandatory_classes(&self, _tier: Tier) -> Vec<&'static str> {
        vec!["relayout", "rename", "append", "token-relayout", "entry-points-agree"]
    }
}

//! Shared monitors: string streams, token counting, tiling walker over the lossless tree.

use crate::gen::strings;
use crate::rng::{mix, Rng};
use crate::worker::{Stream, Tier};
use oq3_syntax::{NodeOrToken, SyntaxKind, SyntaxNode};

/// The string streams shared by the "every UTF-8 string" properties (C01, C02, C12, C14 tail).
/// `scale` multiplies the random stream sizes (1.0 = the C01 sizes).
pub fn string_streams(tag: u64, tier: Tier, seed: u64, scale: f64) -> Vec<Stream> {
    let n = |q: u64, t: u64| -> u64 { ((tier.pick(q, t) as f64) * scale).max(1.0) as u64 };
    let mut v = Vec::new();
    v.push(Stream::new("seed-programs-every-prefix", strings::prefix_count(), true, |i| {
        format!("s:{}", strings::prefix_case(i))
    }));
    v.push(Stream::new("seed-programs-bom-line-ending-whitespace-variants", strings::file_variant_count(), true, |i| {
        format!("s:{}", strings::file_variant_case(i))
    }));
    v.push(Stream::new("mutated-programs", n(120_000, 6_000_000), false, move |i| {
        let mut r = Rng::new(mix(&[seed, tag, 1, i]));
        format!("s:{}", strings::mutated_program(&mut r))
    }));
    v.push(Stream::new("token-soup", n(60_000, 3_000_000), false, move |i| {
        let mut r = Rng::new(mix(&[seed, tag, 2, i]));
        format!("s:{}", strings::token_soup(&mut r, 12))
    }));
    v.push(Stream::new("hostile-utf8", n(40_000, 2_000_000), false, move |i| {
        let mut r = Rng::new(mix(&[seed, tag, 3, i]));
        format!("s:{}", strings::hostile_string(&mut r, 64))
    }));
    v.push(Stream::new("punctuation-runs-in-expression-context", punct_run_count(), true, punct_run_case));
    v.push(Stream::new("string-escape-programs", n(20_000, 1_000_000), false, move |i| {
        let mut r = Rng::new(mix(&[seed, tag, 5, i]));
        format!("s:{}", strings::escape_string_program(&mut r))
    }));
    {
        // every tail of 1..=2 symbols over the 48-symbol class alphabet, after 0..=130 filler tokens
        let al = super::c01::small_alphabet();
        let m = al.len() as u64;
        let tails = m + m * m;
        let pads: u64 = tier.pick(0, 131); // quick: only the word-boundary paddings below
        let boundary: [u64; 8] = [61, 62, 63, 64, 125, 126, 127, 128];
        let npads = if pads == 0 { boundary.len() as u64 } else { pads };
        v.push(Stream::new("padded-tails-across-64-token-boundaries", tails * npads, true, move |i| {
            let al = super::c01::small_alphabet();
            let t = i % tails;
            let pi = i / tails;
            let pad = if pads == 0 { boundary[pi as usize] } else { pi };
            let tail = if t < m {
                al[t as usize].clone()
            } else {
                let t2 = t - m;
                format!("{} {}", al[(t2 % m) as usize], al[(t2 / m) as usize])
            };
            format!("s:{}", strings::padded_tail(pad, &tail))
        }));
    }
    {
        let th = matches!(tier, Tier::Thorough);
        v.push(Stream::new("repeated-fragments-across-size-boundaries", strings::repeated_count(th), true, move |i| {
            format!("s:{}", strings::repeated_case(i, th))
        }));
    }
    v.push(Stream::new("construct-slots-x-token-pairs", strings::hole_count(), true, |i| format!("s:{}", strings::hole_case(i))));
    v.push(Stream::new("list-constructs-with-0-to-40-elements", strings::list_length_count(), true, |i| format!("s:{}", strings::list_length_case(i))));
    v.push(Stream::new("fragments-repeated-to-a-count-then-a-tail", strings::counted_tail_count(), true, |i| format!("s:{}", strings::counted_tail_case(i))));
    v.push(Stream::new("nesting-bombs", n(600, 20_000), false, move |i| {
        let mut r = Rng::new(mix(&[seed, tag, 4, i]));
        format!("s:{}", strings::nesting_bomb(&mut r))
    }));
    v
}

/// Number of non-trivia tokens according to the raw lexer.
pub fn nontrivia_tokens(s: &str) -> usize {
    oq3_lexer::tokenize(s)
        .filter(|t| {
            !matches!(
                t.kind,
                oq3_lexer::TokenKind::Whitespace | oq3_lexer::TokenKind::LineComment | oq3_lexer::TokenKind::BlockComment { .. }
            )
        })
        .count()
}

pub struct TreeFacts {
    pub nodes: usize,
    pub tokens: usize,
    pub error_nodes: usize,
    pub error_tokens: usize,
    pub max_depth: usize,
    /// FNV hash of the pre-order (kind, length) sequence.
    pub shape: u64,
    /// First structural problem found: (clause, kind of innermost offending node, detail)
    pub problem: Option<(String, String, String)>,
    /// Concatenated leaf text equals the input.
    pub leaves_spell_input: bool,
}

/// Walk the whole tree below `root`, checking that children tile their parent and that the
/// leaves spell `input`.
pub fn walk_tree(root: &SyntaxNode, input: &str) -> TreeFacts {
    let mut f = TreeFacts {
        nodes: 0,
        tokens: 0,
        error_nodes: 0,
        error_tokens: 0,
        max_depth: 0,
        shape: 0xcbf2_9ce4_8422_2325,
        problem: None,
        leaves_spell_input: true,
    };
    let mut pos = 0usize; // position in input reached by the leaves so far
    // explicit stack: (node, depth)
    let mut stack: Vec<(SyntaxNode, usize)> = vec![(root.clone(), 1)];
    // We need document order of leaves, so do a recursive-free pre-order with child lists reversed.
    enum Item {
        Node(SyntaxNode, usize),
        Tok(oq3_syntax::SyntaxToken),
    }
    let mut work: Vec<Item> = vec![Item::Node(root.clone(), 1)];
    stack.clear();
    let mix = |h: &mut u64, x: u64| {
        *h ^= x;
        *h = h.wrapping_mul(0x0000_0100_0000_01B3);
    };
    while let Some(item) = work.pop() {
        match item {
            Item::Tok(t) => {
                f.tokens += 1;
                let r = t.text_range();
                let (a, b): (usize, usize) = (r.start().into(), r.end().into());
                mix(&mut f.shape, t.kind() as u16 as u64 + 1000);
                mix(&mut f.shape, (b - a) as u64);
                if t.kind() == SyntaxKind::ERROR {
                    f.error_tokens += 1;
                }
                if a == b && f.problem.is_none() {
                    f.problem = Some(("empty-token".into(), format!("{:?}", t.kind()), format!("at {a}")));
                }
                if a != pos && f.problem.is_none() {
                    f.problem = Some((
                        "leaf-not-contiguous".into(),
                        format!("{:?}", t.kind()),
                        format!("token starts at {a}, previous leaf ended at {pos}"),
                    ));
                }
                let txt = t.text();
                if b > input.len() || !input.is_char_boundary(a.min(input.len())) || !input.is_char_boundary(b.min(input.len())) || input.get(a..b) != Some(txt) {
                    f.leaves_spell_input = false;
                    if f.problem.is_none() {
                        f.problem = Some((
                            "leaf-text-differs-from-input".into(),
                            format!("{:?}", t.kind()),
                            format!("token {:?} at {a}..{b}", txt),
                        ));
                    }
                }
                pos = b;
            }
            Item::Node(n, depth) => {
                f.nodes += 1;
                if depth > f.max_depth {
                    f.max_depth = depth;
                }
                if n.kind() == SyntaxKind::ERROR {
                    f.error_nodes += 1;
                }
                let r = n.text_range();
                let (a, b): (usize, usize) = (r.start().into(), r.end().into());
                mix(&mut f.shape, n.kind() as u16 as u64);
                mix(&mut f.shape, (b - a) as u64);
                // children must tile [a, b)
                let mut cur = a;
                let mut kids: Vec<Item> = Vec::new();
                let mut nkids = 0;
                for c in n.children_with_tokens() {
                    nkids += 1;
                    let cr = c.text_range();
                    let (ca, cb): (usize, usize) = (cr.start().into(), cr.end().into());
                    if ca != cur && f.problem.is_none() {
                        f.problem = Some((
                            if ca > cur { "gap-between-children" } else { "overlapping-children" }.into(),
                            format!("{:?}", n.kind()),
                            format!("child {:?} starts at {ca}, expected {cur}", c.kind()),
                        ));
                    }
                    cur = cb;
                    match c {
                        NodeOrToken::Node(cn) => kids.push(Item::Node(cn, depth + 1)),
                        NodeOrToken::Token(ct) => kids.push(Item::Tok(ct)),
                    }
                }
                if nkids > 0 && cur != b && f.problem.is_none() {
                    f.problem = Some((
                        "children-do-not-span-parent".into(),
                        format!("{:?}", n.kind()),
                        format!("children end at {cur}, node ends at {b}"),
                    ));
                }
                if nkids == 0 && a != b && f.problem.is_none() {
                    f.problem = Some(("childless-nonempty-node".into(), format!("{:?}", n.kind()), format!("{a}..{b}")));
                }
                kids.reverse();
                work.extend(kids);
            }
        }
    }
    if pos != input.len() {
        f.leaves_spell_input = false;
        if f.problem.is_none() {
            f.problem = Some((
                "leaves-do-not-cover-input".into(),
                "SOURCE_FILE".into(),
                format!("leaves end at {pos}, input has {} bytes", input.len()),
            ));
        }
    }
    f
}

const RUN_PUNCT: &[&str] = &[
    ";", ",", ".", "(", ")", "{", "}", "[", "]", "@", "~", "?", ":", "$", "=", "!", "<", ">", "-", "&", "|", "+", "*", "/", "^", "%", "#",
];
const RUN_CONTEXTS: &[(&str, &str)] = &[("a ", " b;"), ("x = a[1] ", " 2;"), ("if (c ", " d) { }")];

/// All runs of 1..=3 punctuation tokens under every glue pattern (each gap glued or spaced),
/// embedded in three expression contexts. Exercises composite-operator gluing exhaustively.
pub fn punct_run_count() -> u64 {
    let n = RUN_PUNCT.len() as u64;
    (n + n * n * 2 + n * n * n * 4) * RUN_CONTEXTS.len() as u64
}

pub fn punct_run_case(idx: u64) -> String {
    let n = RUN_PUNCT.len() as u64;
    let nc = RUN_CONTEXTS.len() as u64;
    let (pre, post) = RUN_CONTEXTS[(idx % nc) as usize];
    let mut i = idx / nc;
    let mut run = String::new();
    if i < n {
        run.push_str(RUN_PUNCT[i as usize]);
    } else if i < n + n * n * 2 {
        i -= n;
        let glue = i % 2;
        i /= 2;
        run.push_str(RUN_PUNCT[(i % n) as usize]);
        if glue == 0 {
            run.push(' ');
        }
        run.push_str(RUN_PUNCT[(i / n) as usize]);
    } else {
        i -= n + n * n * 2;
        let glue = i % 4;
        i /= 4;
        run.push_str(RUN_PUNCT[(i % n) as usize]);
        if glue & 1 == 0 {
            run.push(' ');
        }
        run.push_str(RUN_PUNCT[((i / n) % n) as usize]);
        if glue & 2 == 0 {
            run.push_str(" /*c*/ ");
        }
        run.push_str(RUN_PUNCT[(i / n / n) as usize]);
    }
    format!("s:{pre}{run}{post}")
}


/// The leaves of the tree against the lexer's token table: every leaf starts and ends at a token
/// boundary, and a non-trivia leaf never covers a trivia token (the parser glues punctuation
/// characters into one operator only when nothing at all separates them).
pub fn leaf_token_problems(text: &str) -> Vec<(String, String)> {
    let lx = oq3_parser::LexedStr::new(text);
    let mut bounds = std::collections::BTreeSet::new();
    let mut trivia: Vec<(usize, usize)> = Vec::new();
    for i in 0..lx.len() {
        let r = lx.text_range(i);
        bounds.insert(r.start);
        bounds.insert(r.end);
        if lx.kind(i).is_trivia() {
            trivia.push((r.start, r.end));
        }
    }
    let root = oq3_syntax::SourceFile::parse(text).syntax_node();
    let mut out = Vec::new();
    for t in root.descendants_with_tokens().filter_map(|e| e.into_token()) {
        let r = t.text_range();
        let (a, b): (usize, usize) = (r.start().into(), r.end().into());
        if !bounds.contains(&a) || !bounds.contains(&b) {
            out.push(("leaf-boundary-inside-a-token".to_string(), format!("leaf {:?} {:?} at {a}..{b}", t.kind(), t.text())));
        } else if !t.kind().is_trivia() && trivia.iter().any(|(s, e)| *s < b && *e > a) {
            out.push(("operator-glued-across-trivia".to_string(), format!("leaf {:?} {:?} at {a}..{b} covers trivia", t.kind(), t.text())));
        }
        if out.len() > 3 {
            break;
        }
    }
    out
}

//! Skeleton comparison between a model program and the typed AST read through the public
//! accessors of `oq3_syntax::ast` (C05).  `ParenExpr` is dropped on the AST side.

use crate::model::*;
use oq3_syntax::ast::{self, AstNode, HasArgList, HasName, HasTextNode};
use oq3_syntax::BlockOrStmt;

/// (role path, detail)
pub type Mismatch = (String, String);

fn mm<T>(role: &str, detail: String) -> Result<T, Mismatch> {
    Err((role.to_string(), detail))
}

fn strip(e: ast::Expr) -> ast::Expr {
    let mut cur = e;
    loop {
        match cur {
            ast::Expr::ParenExpr(p) => match p.expr() {
                Some(inner) => cur = inner,
                None => return ast::Expr::ParenExpr(p),
            },
            other => return other,
        }
    }
}

fn text_of(e: &ast::Expr) -> String {
    e.syntax().text().to_string()
}

fn need<T>(x: Option<T>, role: &str, ctx: &str) -> Result<T, Mismatch> {
    match x {
        Some(v) => Ok(v),
        None => mm(role, format!("accessor returned None ({ctx})")),
    }
}

fn binop_matches(op: BinOp, k: ast::BinaryOp) -> bool {
    use ast::{ArithOp as A, BinaryOp as B, CmpOp as C, LogicOp as L, Ordering as O};
    match (op, k) {
        (BinOp::Pow, B::PowerOp) => true,
        (BinOp::Concat, B::ConcatenationOp) => true,
        (BinOp::Mul, B::ArithOp(A::Mul)) => true,
        (BinOp::Div, B::ArithOp(A::Div)) => true,
        (BinOp::Rem, B::ArithOp(A::Rem)) => true,
        (BinOp::Add, B::ArithOp(A::Add)) => true,
        (BinOp::Sub, B::ArithOp(A::Sub)) => true,
        (BinOp::Shl, B::ArithOp(A::Shl)) => true,
        (BinOp::Shr, B::ArithOp(A::Shr)) => true,
        (BinOp::BitAnd, B::ArithOp(A::BitAnd)) => true,
        (BinOp::BitXor, B::ArithOp(A::BitXor)) => true,
        (BinOp::BitOr, B::ArithOp(A::BitOr)) => true,
        (BinOp::And, B::LogicOp(L::And)) => true,
        (BinOp::Or, B::LogicOp(L::Or)) => true,
        (BinOp::Eq, B::CmpOp(C::Eq { negated: false })) => true,
        (BinOp::Ne, B::CmpOp(C::Eq { negated: true })) => true,
        (BinOp::Lt, B::CmpOp(C::Ord { ordering: O::Less, strict: true })) => true,
        (BinOp::Le, B::CmpOp(C::Ord { ordering: O::Less, strict: false })) => true,
        (BinOp::Gt, B::CmpOp(C::Ord { ordering: O::Greater, strict: true })) => true,
        (BinOp::Ge, B::CmpOp(C::Ord { ordering: O::Greater, strict: false })) => true,
        _ => false,
    }
}

fn arith_of(op: BinOp) -> Option<ast::ArithOp> {
    use ast::ArithOp as A;
    Some(match op {
        BinOp::Mul => A::Mul,
        BinOp::Div => A::Div,
        BinOp::Rem => A::Rem,
        BinOp::Add => A::Add,
        BinOp::Sub => A::Sub,
        BinOp::Shl => A::Shl,
        BinOp::Shr => A::Shr,
        BinOp::BitAnd => A::BitAnd,
        BinOp::BitXor => A::BitXor,
        BinOp::BitOr => A::BitOr,
        _ => return None,
    })
}

pub fn cmp_type(t: &MTy, st: &ast::ScalarType, role: &str) -> Result<(), Mismatch> {
    use ast::ScalarTypeKind as K;
    let want = match t.base {
        Base::Int => K::Int,
        Base::UInt => K::UInt,
        Base::Float => K::Float,
        Base::Angle => K::Angle,
        Base::Bool => K::Bool,
        Base::Bit => K::Bit,
        Base::Complex => K::Complex,
        Base::Duration => K::Duration,
        Base::Stretch => K::Stretch,
    };
    if st.kind() != want {
        return mm(&format!("{role}/type-kind"), format!("type {:?}, expected {:?}", st.kind(), want));
    }
    let des = if t.base == Base::Complex { st.scalar_type().and_then(|f| f.designator()) } else { st.designator() };
    match (t.width, des) {
        (None, None) => Ok(()),
        (Some(w), Some(d)) => {
            let txt = d.expr().map(|e| text_of(&e).trim().to_string()).unwrap_or_default();
            if txt == w.to_string() {
                Ok(())
            } else {
                mm(&format!("{role}/type-width"), format!("designator {txt:?}, expected {w}"))
            }
        }
        (w, d) => mm(&format!("{role}/type-width"), format!("width {w:?} vs designator present: {}", d.is_some())),
    }
}

fn cmp_exprs(ms: &[E], list: Option<ast::ExpressionList>, role: &str) -> Result<(), Mismatch> {
    let got: Vec<ast::Expr> = list.map(|l| l.exprs().collect()).unwrap_or_default();
    if got.len() != ms.len() {
        return mm(&format!("{role}/count"), format!("{} elements, expected {}", got.len(), ms.len()));
    }
    for (i, (m, g)) in ms.iter().zip(got.into_iter()).enumerate() {
        cmp_expr(m, g, &format!("{role}[{i}]")).map_err(|(r, d)| (r.replace(&format!("[{i}]"), "[i]"), format!("element {i}: {d}")))?;
    }
    Ok(())
}

fn cmp_index_op(m: &MIndex, op: ast::IndexOperator, role: &str) -> Result<(), Mismatch> {
    match (m, need(op.index_kind(), &format!("{role}/index-kind"), "index operator")?) {
        (MIndex::List(es), ast::IndexKind::ExpressionList(l)) => cmp_exprs(es, Some(l), &format!("{role}/index-list")),
        (MIndex::Set(es), ast::IndexKind::SetExpression(s)) => cmp_exprs(es, s.expression_list(), &format!("{role}/index-set")),
        (m, k) => mm(&format!("{role}/index-kind"), format!("model {m:?} vs {k:?}")),
    }
}

pub fn cmp_operand(m: &E, g: ast::GateOperand, role: &str) -> Result<(), Mismatch> {
    match (&m.k, g) {
        (EK::Ident(n), ast::GateOperand::Identifier(i)) => {
            if i.string() == *n {
                Ok(())
            } else {
                mm(role, format!("operand {:?}, expected {n}", i.string()))
            }
        }
        (EK::HwQubit(n), ast::GateOperand::HardwareQubit(h)) => {
            if h.string() == *n {
                Ok(())
            } else {
                mm(role, format!("operand {:?}, expected {n}", h.string()))
            }
        }
        (EK::Index(b, ixs), ast::GateOperand::IndexedIdentifier(ii)) => cmp_indexed(b, ixs, ii, role),
        (m, g) => mm(role, format!("operand {:?} vs model {}", g.syntax().text().to_string(), expr_kind_name(m))),
    }
}

fn cmp_indexed(b: &E, ixs: &[MIndex], ii: ast::IndexedIdentifier, role: &str) -> Result<(), Mismatch> {
    let name = need(ii.identifier(), &format!("{role}/indexed-name"), "indexed identifier")?.string();
    match &b.k {
        EK::Ident(n) if *n == name => {}
        other => return mm(&format!("{role}/indexed-name"), format!("name {name:?} vs model {other:?}")),
    }
    let ops: Vec<ast::IndexOperator> = ii.index_operators().collect();
    if ops.len() != ixs.len() {
        return mm(&format!("{role}/index-operator-count"), format!("{} vs {}", ops.len(), ixs.len()));
    }
    for (m, o) in ixs.iter().zip(ops) {
        cmp_index_op(m, o, role)?;
    }
    Ok(())
}

pub fn cmp_expr(m: &E, g: ast::Expr, role: &str) -> Result<(), Mismatch> {
    let g = strip(g);
    let gtxt = text_of(&g);
    match (&m.k, g) {
        (EK::Ident(n), ast::Expr::Identifier(i)) => {
            if i.string() == *n {
                Ok(())
            } else {
                mm(&format!("{role}/identifier"), format!("{:?} vs {n}", i.string()))
            }
        }
        (EK::HwQubit(n), ast::Expr::HardwareQubit(h)) => {
            if h.string() == *n {
                Ok(())
            } else {
                mm(&format!("{role}/hardware-qubit"), format!("{:?} vs {n}", h.string()))
            }
        }
        (EK::Int(s), ast::Expr::Literal(l)) | (EK::Float(s), ast::Expr::Literal(l)) | (EK::BitStr(s), ast::Expr::Literal(l)) => {
            let t = l.token().text().to_string();
            let kind_ok = matches!(
                (&m.k, l.kind()),
                (EK::Int(_), ast::LiteralKind::IntNumber(_)) | (EK::Float(_), ast::LiteralKind::FloatNumber(_)) | (EK::BitStr(_), ast::LiteralKind::BitString(_))
            );
            if t == *s && kind_ok {
                Ok(())
            } else {
                mm(&format!("{role}/literal"), format!("literal {t:?} ({:?}) vs model {s}", l.kind()))
            }
        }
        (EK::Bool(b), ast::Expr::Literal(l)) => match l.kind() {
            ast::LiteralKind::Bool(x) if x == *b => Ok(()),
            k => mm(&format!("{role}/literal"), format!("{k:?} vs bool {b}")),
        },
        (EK::Timing(n, u, _), ast::Expr::TimingLiteral(t)) => {
            let num = need(t.literal(), &format!("{role}/timing-literal"), "literal()")?.token().text().to_string();
            let unit = need(t.identifier(), &format!("{role}/timing-unit"), "identifier()")?.string();
            if num == *n && unit == *u {
                Ok(())
            } else {
                mm(&format!("{role}/timing"), format!("{num}{unit} vs {n}{u}"))
            }
        }
        (EK::Imag(n, _), ast::Expr::TimingLiteral(t)) => {
            let num = need(t.literal(), &format!("{role}/imag-literal"), "literal()")?.token().text().to_string();
            let unit = need(t.identifier(), &format!("{role}/imag-unit"), "identifier()")?.string();
            if num == *n && unit == "im" {
                Ok(())
            } else {
                mm(&format!("{role}/imag"), format!("{num}{unit} vs {n}im"))
            }
        }
        (EK::Unary(op, a), ast::Expr::PrefixExpr(p)) => {
            let k = need(p.op_kind(), &format!("{role}/unary-op"), "op_kind()")?;
            let ok = matches!((op, k), (UnOp::Neg, ast::UnaryOp::Neg) | (UnOp::BitNot, ast::UnaryOp::Not) | (UnOp::Not, ast::UnaryOp::LogicNot));
            if !ok {
                return mm(&format!("{role}/unary-op"), format!("{k:?} vs {op:?}"));
            }
            cmp_expr(a, need(p.expr(), &format!("{role}/unary-operand"), "expr()")?, &format!("{role}/unary-operand"))
        }
        (EK::Binary(op, l, r), ast::Expr::BinExpr(b)) => {
            let k = need(b.op_kind(), &format!("{role}/binary-op"), "op_kind()")?;
            if !binop_matches(*op, k) {
                return mm(&format!("{role}/binary-op"), format!("AST node `{}` has operator {k:?}, the derivation has `{}` at this position", gtxt.trim(), op.text()));
            }
            // the node's other accessors name the same constituents
            {
                let rng = |e: &Option<ast::Expr>| e.as_ref().map(|x| x.syntax().text_range());
                let (s1, s2) = b.sub_exprs();
                if rng(&s1) != rng(&b.lhs()) || rng(&s2) != rng(&b.rhs()) {
                    return mm(&format!("{role}/binary-sub_exprs-disagrees-with-lhs-rhs"), format!("`{}`: sub_exprs() = ({:?}, {:?}), lhs()/rhs() = ({:?}, {:?})", gtxt.trim(), rng(&s1), rng(&s2), rng(&b.lhs()), rng(&b.rhs())));
                }
                match b.op_details() {
                    Some((tok, kind)) if kind == k && b.op_token().map(|t| t.text_range()) == Some(tok.text_range()) => {}
                    other => return mm(&format!("{role}/binary-op_details-disagrees-with-op_kind"), format!("`{}`: op_details() = {:?}, op_kind() = {k:?}", gtxt.trim(), other.map(|x| x.1))),
                }
            }
            cmp_expr(l, need(b.lhs(), &format!("{role}/binary-lhs"), "lhs()")?, &format!("{role}/binary-lhs"))?;
            cmp_expr(r, need(b.rhs(), &format!("{role}/binary-rhs"), "rhs()")?, &format!("{role}/binary-rhs"))
        }
        (EK::Cast(t, a), ast::Expr::CastExpression(c)) => {
            cmp_type(t, &need(c.scalar_type(), &format!("{role}/cast-type"), "scalar_type()")?, &format!("{role}/cast"))?;
            cmp_expr(a, need(c.expr(), &format!("{role}/cast-operand"), "expr()")?, &format!("{role}/cast-operand"))
        }
        (EK::Call(n, args), ast::Expr::CallExpr(c)) => {
            let name = need(c.identifier(), &format!("{role}/call-name"), "identifier()")?.string();
            if name != *n {
                return mm(&format!("{role}/call-name"), format!("{name} vs {n}"));
            }
            let al = need(c.arg_list(), &format!("{role}/call-args"), "arg_list()")?;
            cmp_exprs(args, al.expression_list(), &format!("{role}/call-args"))
        }
        (EK::Index(b, ixs), ast::Expr::IndexedIdentifier(ii)) if matches!(b.k, EK::Ident(_)) => cmp_indexed(b, ixs, ii, role),
        (EK::Index(b, ixs), ast::Expr::IndexExpr(ie)) if !matches!(b.k, EK::Ident(_)) && ixs.len() == 1 => {
            cmp_expr(b, need(ie.expr(), &format!("{role}/index-base"), "expr()")?, &format!("{role}/index-base"))?;
            cmp_index_op(&ixs[0], need(ie.index_operator(), &format!("{role}/index-operator"), "index_operator()")?, role)
        }
        (EK::Measure(q), ast::Expr::MeasureExpression(me)) => cmp_operand(q, need(me.gate_operand(), &format!("{role}/measure-operand"), "gate_operand()")?, &format!("{role}/measure-operand")),
        (EK::Range(a, s, b), ast::Expr::RangeExpr(r)) => {
            let (start, step, stop) = r.start_step_stop();
            cmp_expr(a, need(start, &format!("{role}/range-start"), "start")?, &format!("{role}/range-start"))?;
            match (s, step) {
                (None, None) => {}
                (Some(s), Some(g)) => cmp_expr(s, g, &format!("{role}/range-step"))?,
                (s, g) => return mm(&format!("{role}/range-step"), format!("model step {:?} vs AST step present {}", s.is_some(), g.is_some())),
            }
            cmp_expr(b, need(stop, &format!("{role}/range-stop"), "stop")?, &format!("{role}/range-stop"))
        }
        (mk, g) => mm(
            &format!("{role}/shape"),
            format!("the derivation has a {} here, the AST has {:?} `{}`", expr_kind_name(mk), g.syntax().kind(), text_of(&g).trim()),
        ),
    }
}

fn cmp_operands(ms: &[E], ql: Option<ast::QubitList>, role: &str) -> Result<(), Mismatch> {
    let got: Vec<ast::GateOperand> = ql.map(|q| q.gate_operands().collect()).unwrap_or_default();
    if got.len() != ms.len() {
        return mm(&format!("{role}/operand-count"), format!("{} vs {}", got.len(), ms.len()));
    }
    for (i, (m, g)) in ms.iter().zip(got).enumerate() {
        cmp_operand(m, g, &format!("{role}/operand")).map_err(|(r, d)| (r, format!("operand {i}: {d}")))?;
    }
    Ok(())
}

fn cmp_block(ms: &[S], b: Option<ast::BlockExpr>, role: &str) -> Result<(), Mismatch> {
    let b = need(b, &format!("{role}/block"), "block accessor")?;
    cmp_stmts(ms, b.statements().collect(), role)
}

pub fn cmp_stmts(ms: &[S], got: Vec<ast::Stmt>, role: &str) -> Result<(), Mismatch> {
    if ms.len() != got.len() {
        let kinds: Vec<String> = got.iter().map(|s| format!("{:?}", s.syntax().kind())).collect();
        return mm(&format!("{role}/statement-count"), format!("{} statements {:?}, expected {}", got.len(), kinds, ms.len()));
    }
    for (i, (m, g)) in ms.iter().zip(got).enumerate() {
        cmp_stmt(m, g, role).map_err(|(r, d)| (r, format!("statement {i} ({}): {d}", stmt_kind_name(&m.k))))?;
    }
    Ok(())
}

fn cmp_body(m: &Body, g: BlockOrStmt, role: &str) -> Result<(), Mismatch> {
    match (m, g) {
        (Body::Block(v), BlockOrStmt::BlockExpr(b)) => cmp_stmts(v, b.statements().collect(), role),
        (Body::Single(s), BlockOrStmt::Stmt(g)) => cmp_stmt(s, g, role),
        (Body::Block(_), BlockOrStmt::Stmt(g)) => mm(&format!("{role}/body-form"), format!("block expected, accessor gives statement `{}`", g.syntax().text())),
        (Body::Single(_), BlockOrStmt::BlockExpr(b)) => mm(&format!("{role}/body-form"), format!("single statement expected, accessor gives block `{}`", b.syntax().text())),
    }
}

fn cmp_modifiers(ms: &[Modifier], got: Vec<ast::Modifier>, role: &str) -> Result<(), Mismatch> {
    if ms.len() != got.len() {
        return mm(&format!("{role}/modifier-count"), format!("{} vs {}", got.len(), ms.len()));
    }
    for (i, (m, g)) in ms.iter().zip(got).enumerate() {
        let r = format!("{role}/modifier");
        match (m, g) {
            (Modifier::Inv, ast::Modifier::InvModifier(_)) => {}
            (Modifier::Pow(e), ast::Modifier::PowModifier(p)) => {
                let pe = need(p.paren_expr(), &r, "pow paren_expr()")?;
                cmp_expr(e, need(pe.expr(), &r, "pow expr")?, &format!("{r}/pow-exponent"))?;
            }
            (Modifier::Ctrl(e), ast::Modifier::CtrlModifier(c)) => match (e, c.paren_expr()) {
                (None, None) => {}
                (Some(e), Some(pe)) => cmp_expr(e, need(pe.expr(), &r, "ctrl expr")?, &format!("{r}/ctrl-count"))?,
                _ => return mm(&r, format!("modifier {i}: ctrl argument presence differs")),
            },
            (Modifier::NegCtrl(e), ast::Modifier::NegCtrlModifier(c)) => match (e, c.paren_expr()) {
                (None, None) => {}
                (Some(e), Some(pe)) => cmp_expr(e, need(pe.expr(), &r, "negctrl expr")?, &format!("{r}/negctrl-count"))?,
                _ => return mm(&r, format!("modifier {i}: negctrl argument presence differs")),
            },
            (m, g) => return mm(&format!("{r}/order"), format!("modifier {i}: model {m:?} vs `{}`", g.syntax().text())),
        }
    }
    Ok(())
}

fn cmp_gate_call(name: &str, args: &Option<Vec<E>>, ops: &[E], gc: ast::GateCallExpr, role: &str) -> Result<(), Mismatch> {
    let n = need(gc.identifier(), &format!("{role}/gate-name"), "identifier()")?.string();
    if n != name {
        return mm(&format!("{role}/gate-name"), format!("{n} vs {name}"));
    }
    match (args, gc.arg_list()) {
        (None, None) => {}
        (Some(a), Some(al)) => cmp_exprs(a, al.expression_list(), &format!("{role}/gate-args"))?,
        (a, g) => return mm(&format!("{role}/gate-args"), format!("model args {:?} vs arg list present {}", a.as_ref().map(|x| x.len()), g.is_some())),
    }
    cmp_operands(ops, gc.qubit_list(), role)
}

pub fn cmp_stmt(m: &S, g: ast::Stmt, _outer: &str) -> Result<(), Mismatch> {
    let role = stmt_kind_name(&m.k);
    let gk = format!("{:?}", g.syntax().kind());
    match (&m.k, g) {
        (SK::Decl(c, t, n, init), ast::Stmt::ClassicalDeclarationStatement(d)) => {
            if d.const_token().is_some() != *c {
                return mm("decl/const", format!("const_token present: {}", d.const_token().is_some()));
            }
            cmp_type(t, &need(d.scalar_type(), "decl/type", "scalar_type()")?, "decl")?;
            let name = need(d.name(), "decl/name", "name()")?.string();
            if name != *n {
                return mm("decl/name", format!("{name} vs {n}"));
            }
            match (init, d.expr()) {
                (None, None) => Ok(()),
                (Some(e), Some(g)) => cmp_expr(e, g, "decl/initializer"),
                (e, g) => mm("decl/initializer", format!("model initializer {} vs AST {}", e.is_some(), g.is_some())),
            }
        }
        (SK::Qubit(n, sz), ast::Stmt::QuantumDeclarationStatement(d)) => {
            let name = need(d.name(), "qubit/name", "name()")?.string();
            if name != *n {
                return mm("qubit/name", format!("{name} vs {n}"));
            }
            let des = need(d.qubit_type(), "qubit/type", "qubit_type()")?.designator().and_then(|x| x.expr()).map(|e| text_of(&e).trim().to_string());
            if des != sz.map(|k| k.to_string()) {
                return mm("qubit/size", format!("{des:?} vs {sz:?}"));
            }
            Ok(())
        }
        (SK::OldReg(q, n, k), ast::Stmt::OldStyleDeclarationStatement(d)) => {
            use oq3_syntax::ast::HasName;
            let tp = need(d.old_typed_param(), "oldreg/param", "old_typed_param()")?;
            if tp.qreg_token().is_some() != *q || tp.creg_token().is_some() == *q {
                return mm("oldreg/keyword", format!("qreg {} / creg {} vs model qreg={q}", tp.qreg_token().is_some(), tp.creg_token().is_some()));
            }
            let name = need(tp.name(), "oldreg/name", "name()")?.string();
            if name != *n {
                return mm("oldreg/name", format!("{name} vs {n}"));
            }
            let des = need(need(tp.designator(), "oldreg/designator", "designator()")?.expr(), "oldreg/designator", "expr()")?;
            let got = des.syntax().text().to_string();
            if got.trim() != k.to_string() {
                return mm("oldreg/size", format!("{got} vs {k}"));
            }
            Ok(())
        }
        (SK::Io(inp, t, n), ast::Stmt::IODeclarationStatement(d)) => {
            if d.input_token().is_some() != *inp || d.output_token().is_some() == *inp {
                return mm("io/direction", "input/output token".into());
            }
            cmp_type(t, &need(d.scalar_type(), "io/type", "scalar_type()")?, "io")?;
            let name = need(d.name(), "io/name", "name()")?.string();
            if name != *n {
                return mm("io/name", format!("{name} vs {n}"));
            }
            Ok(())
        }
        (SK::Gate(n, ps, qs, body), ast::Stmt::Gate(gt)) => {
            let name = need(gt.name(), "gate/name", "name()")?.string();
            if name != *n {
                return mm("gate/name", format!("{name} vs {n}"));
            }
            let angles: Option<Vec<String>> = gt.angle_params().map(|p| p.params().map(|x| x.text().to_string()).collect());
            if angles != *ps {
                return mm("gate/angle-params", format!("{angles:?} vs {ps:?}"));
            }
            let qubits: Vec<String> = need(gt.qubit_params(), "gate/qubit-params", "qubit_params()")?.params().map(|x| x.text().to_string()).collect();
            if qubits != *qs {
                return mm("gate/qubit-params", format!("{qubits:?} vs {qs:?}"));
            }
            cmp_block(body, gt.body(), "gate/body")
        }
        (SK::Def(n, ps, ret, body), ast::Stmt::Def(d)) => {
            let name = need(d.name(), "def/name", "name()")?.string();
            if name != *n {
                return mm("def/name", format!("{name} vs {n}"));
            }
            let got: Vec<ast::TypedParam> = need(d.typed_param_list(), "def/params", "typed_param_list()")?.typed_params().collect();
            if got.len() != ps.len() {
                return mm("def/param-count", format!("{} vs {}", got.len(), ps.len()));
            }
            for (i, ((t, pn), g)) in ps.iter().zip(got).enumerate() {
                let gname = need(g.name(), "def/param-name", "name()")?.string();
                if gname != *pn {
                    return mm("def/param-name", format!("param {i}: {gname} vs {pn}"));
                }
                match (t, need(g.param_type(), "def/param-type", "param_type()")?) {
                    (Some(t), ast::ParamType::ScalarType(st)) => cmp_type(t, &st, "def/param")?,
                    (None, ast::ParamType::ScalarType(st)) => {
                        if st.kind() != ast::ScalarTypeKind::Qubit {
                            return mm("def/param-type", format!("param {i}: {:?} vs qubit", st.kind()));
                        }
                    }
                    (_, other) => return mm("def/param-type", format!("param {i}: {other:?}")),
                }
            }
            match (ret, d.return_signature().and_then(|r| r.scalar_type())) {
                (None, None) => {}
                (Some(t), Some(st)) => cmp_type(t, &st, "def/return")?,
                (t, st) => return mm("def/return-type", format!("model {t:?} vs present {}", st.is_some())),
            }
            cmp_block(body, d.body(), "def/body")
        }
        (SK::GateCall(mods, n, args, ops), ast::Stmt::ExprStmt(es)) => match need(es.expr(), "gatecall/expr", "ExprStmt::expr()")? {
            ast::Expr::GateCallExpr(gc) if mods.is_empty() => cmp_gate_call(n, args, ops, gc, "gatecall"),
            ast::Expr::ModifiedGateCallExpr(mg) if !mods.is_empty() => {
                cmp_modifiers(mods, mg.modifiers().collect(), "gatecall")?;
                cmp_gate_call(n, args, ops, need(mg.gate_call_expr(), "gatecall/call", "gate_call_expr()")?, "gatecall")
            }
            other => mm("gatecall/shape", format!("{:?} `{}`", other.syntax().kind(), other.syntax().text())),
        },
        (SK::GPhase(mods, a), ast::Stmt::ExprStmt(es)) => match need(es.expr(), "gphase/expr", "ExprStmt::expr()")? {
            ast::Expr::GPhaseCallExpr(gp) if mods.is_empty() => cmp_expr(a, need(gp.arg(), "gphase/arg", "arg()")?, "gphase/arg"),
            ast::Expr::ModifiedGateCallExpr(mg) if !mods.is_empty() => {
                cmp_modifiers(mods, mg.modifiers().collect(), "gphase")?;
                let gp = need(mg.g_phase_call_expr(), "gphase/call", "g_phase_call_expr()")?;
                cmp_expr(a, need(gp.arg(), "gphase/arg", "arg()")?, "gphase/arg")
            }
            other => mm("gphase/shape", format!("{:?}", other.syntax().kind())),
        },
        (SK::MeasureStmt(q), ast::Stmt::ExprStmt(es)) => match need(es.expr(), "measure/expr", "expr()")? {
            ast::Expr::MeasureExpression(me) => cmp_operand(q, need(me.gate_operand(), "measure/operand", "gate_operand()")?, "measure/operand"),
            other => mm("measure/shape", format!("{:?}", other.syntax().kind())),
        },
        (SK::Reset(q), ast::Stmt::Reset(r)) => cmp_operand(q, need(r.gate_operand(), "reset/operand", "gate_operand()")?, "reset/operand"),
        (SK::Barrier(ops), ast::Stmt::Barrier(b)) => cmp_operands(ops, b.qubit_list(), "barrier"),
        (SK::Delay(d, ops), ast::Stmt::DelayStmt(ds)) => {
            cmp_expr(d, need(need(ds.designator(), "delay/designator", "designator()")?.expr(), "delay/designator", "expr()")?, "delay/duration")?;
            cmp_operands(ops, ds.qubit_list(), "delay")
        }
        (SK::If(c, t, e), ast::Stmt::IfStmt(i)) => {
            cmp_expr(c, need(i.condition(), "if/condition", "condition()")?, "if/condition")?;
            cmp_body(t, i.true_body_block_or_stmt(), "if/then").map_err(|(r, d)| (format!("if/then>{r}"), d))?;
            match (e, i.false_body_block_or_stmt()) {
                (None, None) => Ok(()),
                (Some(e), Some(g)) => cmp_body(e, g, "if/else").map_err(|(r, d)| (format!("if/else>{r}"), d)),
                (e, g) => mm("if/else-presence", format!("model else {} vs accessor {}", e.is_some(), g.is_some())),
            }
        }
        (SK::While(c, b), ast::Stmt::WhileStmt(w)) => {
            cmp_expr(c, need(w.condition(), "while/condition", "condition()")?, "while/condition")?;
            cmp_body(b, w.block_or_stmt(), "while/body").map_err(|(r, d)| (format!("while/body>{r}"), d))
        }
        (SK::For(t, v, it, b), ast::Stmt::ForStmt(f)) => {
            cmp_type(t, &need(f.scalar_type(), "for/type", "scalar_type()")?, "for")?;
            let var = need(f.loop_var(), "for/loop-var", "loop_var()")?.string();
            if var != *v {
                return mm("for/loop-var", format!("{var} vs {v}"));
            }
            let fi = need(f.for_iterable(), "for/iterable", "for_iterable()")?;
            match it {
                Iterable::Range(r) => cmp_expr(r, ast::Expr::RangeExpr(need(fi.range_expr(), "for/iterable-range", "range_expr()")?), "for/iterable")?,
                Iterable::Set(es) => cmp_exprs(es, need(fi.set_expression(), "for/iterable-set", "set_expression()")?.expression_list(), "for/iterable-set")?,
                Iterable::Expr(e) => cmp_expr(e, need(fi.for_iterable_expr(), "for/iterable-expr", "for_iterable_expr()")?, "for/iterable")?,
            }
            cmp_body(b, f.block_or_stmt(), "for/body").map_err(|(r, d)| (format!("for/body>{r}"), d))
        }
        (SK::Switch(c, cases, def), ast::Stmt::SwitchCaseStmt(s)) => {
            cmp_expr(c, need(s.control(), "switch/control", "control()")?, "switch/control")?;
            let got: Vec<ast::CaseExpr> = s.case_exprs().collect();
            if got.len() != cases.len() {
                return mm("switch/case-count", format!("{} vs {}", got.len(), cases.len()));
            }
            for ((vals, body), g) in cases.iter().zip(got) {
                cmp_exprs(vals, g.expression_list(), "switch/case-values")?;
                cmp_block(body, g.block_expr(), "switch/case-body").map_err(|(r, d)| (format!("switch/case>{r}"), d))?;
            }
            match (def, s.default_block()) {
                (None, None) => Ok(()),
                (Some(d), Some(b)) => cmp_stmts(d, b.statements().collect(), "switch/default").map_err(|(r, d)| (format!("switch/default>{r}"), d)),
                (d, b) => mm("switch/default-presence", format!("model {} vs {}", d.is_some(), b.is_some())),
            }
        }
        (SK::Break, ast::Stmt::BreakStmt(_)) | (SK::Continue, ast::Stmt::ContinueStmt(_)) | (SK::End, ast::Stmt::EndStmt(_)) => Ok(()),
        (SK::Return(e), ast::Stmt::ExprStmt(es)) => match need(es.expr(), "return/expr", "expr()")? {
            ast::Expr::ReturnExpr(r) => match (e, r.expr()) {
                (None, None) => Ok(()),
                (Some(e), Some(g)) => cmp_expr(e, g, "return/value"),
                (e, g) => mm("return/value-presence", format!("{} vs {}", e.is_some(), g.is_some())),
            },
            other => mm("return/shape", format!("{:?}", other.syntax().kind())),
        },
        (SK::Assign(t, None, rhs), ast::Stmt::AssignmentStmt(a)) => {
            match &t.k {
                // protocol of the accessors: identifier() is the target if it is a plain identifier,
                // otherwise identifier() is None and indexed_identifier() is the target
                EK::Ident(n) => {
                    let id = need(a.identifier(), "assign/target", "identifier()")?.string();
                    if id != *n {
                        return mm("assign/target", format!("identifier() gives {id:?}, the target is {n}"));
                    }
                }
                EK::Index(b, ixs) => {
                    if let Some(id) = a.identifier() {
                        return mm("assign/target", format!("identifier() gives {:?} although the target is an indexed identifier", id.string()));
                    }
                    cmp_indexed(b, ixs, need(a.indexed_identifier(), "assign/target", "indexed_identifier()")?, "assign/target")?
                }
                other => return mm("assign/target", format!("model target {other:?}")),
            }
            cmp_expr(rhs, need(a.rhs(), "assign/rhs", "rhs()")?, "assign/rhs")
        }
        (SK::Assign(t, Some(op), rhs), ast::Stmt::ExprStmt(es)) => match need(es.expr(), "assign/expr", "expr()")? {
            ast::Expr::BinExpr(b) => {
                match b.op_kind() {
                    Some(ast::BinaryOp::Assignment { op: Some(o) }) if Some(o) == arith_of(*op) => {}
                    k => return mm("assign/compound-op", format!("{k:?} vs {}=", op.text())),
                }
                cmp_expr(t, need(b.lhs(), "assign/compound-target", "lhs()")?, "assign/compound-target")?;
                cmp_expr(rhs, need(b.rhs(), "assign/compound-rhs", "rhs()")?, "assign/compound-rhs")
            }
            other => mm("assign/compound-shape", format!("{:?}", other.syntax().kind())),
        },
        (SK::Alias(n, e), ast::Stmt::AliasDeclarationStatement(a)) => {
            let name = need(a.name(), "alias/name", "name()")?.string();
            if name != *n {
                return mm("alias/name", format!("{name} vs {n}"));
            }
            cmp_expr(e, need(a.expr(), "alias/value", "expr()")?, "alias/value")
        }
        (SK::Alias(..), ast::Stmt::LetStmt(_)) => mm("alias/kind-let-stmt", "the alias declaration is a LET_STMT in this context".into()),
        (SK::ExprStmt(e), ast::Stmt::ExprStmt(es)) => cmp_expr(e, need(es.expr(), "exprstmt/expr", "expr()")?, "exprstmt"),
        (SK::Pragma(t), ast::Stmt::PragmaStatement(p)) => {
            let got = p.pragma_text();
            if got.trim() == t.trim() {
                Ok(())
            } else {
                mm("pragma/text", format!("{got:?} vs {t:?}"))
            }
        }
        (SK::Annotation(t), ast::Stmt::AnnotationStatement(a)) => {
            let got = a.annotation_text();
            if got.trim() == format!("@{t}").trim() {
                Ok(())
            } else {
                mm("annotation/text", format!("{got:?} vs @{t}"))
            }
        }
        (SK::Include(p), ast::Stmt::Include(i)) => {
            let got = i.file().and_then(|f| f.to_string());
            if got.as_deref() == Some(p.as_str()) {
                Ok(())
            } else {
                mm("include/path", format!("{got:?} vs {p}"))
            }
        }
        (SK::Version(v), ast::Stmt::VersionString(vs)) => {
            // (the header is a single token of this lexer and `VersionString::version()` has no child to
            // return; the version number is not among the roles the property lists: only the text is compared)
            let got = vs.syntax().children_with_tokens().filter_map(|e| e.into_token()).find(|t| !t.kind().is_trivia()).map(|t| t.text().to_string()).unwrap_or_default();
            let got = got.trim().trim_start_matches("OPENQASM").trim().to_string();
            if got.trim() == v.trim() {
                Ok(())
            } else {
                mm("version/number", format!("{got:?} vs {v:?}"))
            }
        }
        (_, _) => mm(&format!("{role}/statement-kind"), format!("the derivation has a {role} statement, the AST has {gk}")),
    }
}

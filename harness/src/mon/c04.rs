//! C04 — valid OpenQASM 3 programs are accepted with zero syntax diagnostics.

use crate::gen::modelgen::{GenCfg, MG, N_STMT_KINDS};
use crate::model::*;
use crate::model_shrink::*;
use crate::rng::{mix, Rng};
use crate::worker::{guard, Obs, Property, Stream, Tier};
use oq3_syntax::SourceFile;

pub struct C04;

pub const CONTEXTS: &[&str] = &[
    "top", "gate-body", "def-body", "if-block", "if-single", "else-block", "else-single", "while-block", "while-single", "for-block", "for-single", "case-body",
    "default-body",
];

pub fn layouts(seed: u64) -> Vec<(&'static str, Layout)> {
    vec![
        ("sparse", Layout { trivia: Trivia::Sparse, redundant_parens: 0, paren_assign_rhs: false, paren_deviating: false, trailing_commas: 0, seed }),
        ("dense", Layout { trivia: Trivia::Dense, redundant_parens: 0, paren_assign_rhs: false, paren_deviating: false, trailing_commas: 0, seed: seed ^ 1 }),
        ("sparse+parens+trailing-commas", Layout { trivia: Trivia::Lines, redundant_parens: 30, paren_assign_rhs: false, paren_deviating: false, trailing_commas: 40, seed: seed ^ 2 }),
        ("tight+parens", Layout { trivia: Trivia::Tight, redundant_parens: 15, paren_assign_rhs: false, paren_deviating: false, trailing_commas: 0, seed: seed ^ 3 }),
    ]
}

/// Number of diagnostics of both entry points (max), or a panic site.
pub fn diagnostics(text: &str) -> Result<(usize, Vec<String>), String> {
    match guard(|| {
        let a = SourceFile::parse(text);
        let b = SourceFile::parse_check_lex(text);
        let mut msgs: Vec<String> = a.errors().iter().map(|e| format!("{} @{:?}", e.message(), e.range())).collect();
        if b.errors().len() > a.errors().len() {
            msgs = b.errors().iter().map(|e| format!("{} @{:?}", e.message(), e.range())).collect();
        }
        (a.errors().len().max(b.errors().len()), msgs)
    }) {
        Ok(x) => Ok(x),
        Err(p) => Err(p.site()),
    }
}

fn id_gen(next: &mut Id) -> Id {
    *next += 1;
    *next
}

/// Wrap a statement into one of the statement contexts.
pub fn in_context(ctx: &str, s: S, next: &mut Id) -> Vec<S> {
    let i1 = id_gen(next);
    let i2 = id_gen(next);
    let mut e = |k: EK| E { id: id_gen(next), k };
    let cond = e(EK::Ident("c0".into()));
    let mk = |k: SK, id: Id| S { id, k };
    match ctx {
        "top" => vec![s],
        "gate-body" => vec![mk(SK::Gate("gg".into(), None, vec!["qa".into()], vec![s]), i1)],
        "def-body" => vec![mk(SK::Def("ff".into(), vec![], None, vec![s]), i1)],
        "if-block" => vec![mk(SK::If(cond, Body::Block(vec![s]), None), i1)],
        "if-single" => vec![mk(SK::If(cond, Body::Single(Box::new(s)), None), i1)],
        "else-block" => vec![mk(SK::If(cond, Body::Block(vec![]), Some(Body::Block(vec![s]))), i1)],
        "else-single" => vec![mk(SK::If(cond, Body::Block(vec![mk(SK::Break, i2)]), Some(Body::Single(Box::new(s)))), i1)],
        "while-block" => vec![mk(SK::While(cond, Body::Block(vec![s])), i1)],
        "while-single" => vec![mk(SK::While(cond, Body::Single(Box::new(s))), i1)],
        "for-block" | "for-single" => {
            let a = e(EK::Int("0".into()));
            let b = e(EK::Int("4".into()));
            let r = e(EK::Range(Box::new(a), None, Box::new(b)));
            let body = if ctx == "for-block" { Body::Block(vec![s]) } else { Body::Single(Box::new(s)) };
            vec![mk(SK::For(MTy::new(Base::Int, None), "i0".into(), Iterable::Range(r), body), i1)]
        }
        "case-body" => {
            let v = e(EK::Int("1".into()));
            vec![mk(SK::Switch(cond, vec![(vec![v], vec![s])], None), i1)]
        }
        _ => vec![mk(SK::Switch(cond, vec![], Some(vec![s])), i1)],
    }
}

fn fails(prog: &[S], seed: u64) -> Option<(String, String, Vec<String>)> {
    for (lname, lay) in layouts(seed) {
        let p = print_program(prog, &lay);
        match diagnostics(&p.text) {
            Ok((0, _)) => {}
            Ok((_, msgs)) => return Some((lname.to_string(), p.text, msgs)),
            Err(site) => return Some((format!("{lname}:panic"), p.text, vec![site])),
        }
    }
    None
}

fn children(s: &S) -> Vec<&S> {
    match &s.k {
        SK::Gate(_, _, _, b) | SK::Def(_, _, _, b) => b.iter().collect(),
        SK::If(_, t, e) => {
            let mut v = t.stmts();
            if let Some(e) = e {
                v.extend(e.stmts());
            }
            v
        }
        SK::While(_, b) | SK::For(_, _, _, b) => b.stmts(),
        SK::Switch(_, cs, d) => {
            let mut v: Vec<&S> = cs.iter().flat_map(|c| c.1.iter()).collect();
            if let Some(d) = d {
                v.extend(d.iter());
            }
            v
        }
        _ => vec![],
    }
}

/// Replace every nested statement that fails on its own by `break;`.
fn neutralise(s: &S, seed: u64) -> S {
    fn fix(v: &[S], seed: u64) -> Vec<S> {
        v.iter()
            .map(|c| if fails(std::slice::from_ref(c), seed).is_some() { S { id: c.id, k: SK::Break } } else { c.clone() })
            .collect()
    }
    fn fixb(b: &Body, seed: u64) -> Body {
        match b {
            Body::Block(v) => Body::Block(fix(v, seed)),
            Body::Single(c) => {
                if fails(std::slice::from_ref(c.as_ref()), seed).is_some() {
                    Body::Single(Box::new(S { id: c.id, k: SK::Break }))
                } else {
                    b.clone()
                }
            }
        }
    }
    let k = match &s.k {
        SK::Gate(n, p, q, b) => SK::Gate(n.clone(), p.clone(), q.clone(), fix(b, seed)),
        SK::Def(n, p, r, b) => SK::Def(n.clone(), p.clone(), r.clone(), fix(b, seed)),
        SK::If(c, t, e) => SK::If(c.clone(), fixb(t, seed), e.as_ref().map(|e| fixb(e, seed))),
        SK::While(c, b) => SK::While(c.clone(), fixb(b, seed)),
        SK::For(t, v, it, b) => SK::For(t.clone(), v.clone(), it.clone(), fixb(b, seed)),
        SK::Switch(c, cs, d) => SK::Switch(c.clone(), cs.iter().map(|(v, b)| (v.clone(), fix(b, seed))).collect(), d.as_ref().map(|d| fix(d, seed))),
        other => other.clone(),
    };
    S { id: s.id, k }
}

/// Cells of every innermost failing construct of `s`.
fn failing_cells(s: &S, ctx: &str, seed: u64, out: &mut Vec<(String, String)>) {
    let Some(_) = fails(std::slice::from_ref(s), seed) else { return };
    let before = out.len();
    for c in children(s) {
        failing_cells(c, stmt_kind_name(&s.k), seed, out);
    }
    let own = neutralise(s, seed);
    if out.len() == before || fails(std::slice::from_ref(&own), seed).is_some() {
        if let Some((lname, _, _)) = fails(std::slice::from_ref(&own), seed) {
            let min = shrink_program(std::slice::from_ref(&own), &mut |p| fails(p, seed).is_some(), 400);
            let (_, text, msgs) = fails(&min, seed).unwrap_or((lname.clone(), String::new(), vec![]));
            let lay = if lname.starts_with("sparse") && !lname.contains("parens") { String::new() } else { format!("/layout={lname}") };
            out.push((format!("rejected/in:{ctx}/{}{lay}", skel_program(&min)), format!("{text:?}: {msgs:?}")));
        }
    }
}

fn check_program(prog: &[S], ctx: &str, seed: u64, obs: &mut Obs) {
    let sk = skel_program(prog);
    obs.fp.str(&sk);
    for s in prog {
        obs.count(&format!("stmt:{}", stmt_kind_name(&s.k)));
    }
    match fails(prog, seed) {
        None => {}
        Some(_) => {
            let mut cells = Vec::new();
            for s in prog {
                failing_cells(s, ctx, seed, &mut cells);
            }
            if cells.is_empty() {
                // every statement is accepted alone but the program is not: composition (C16's
                // business, but the program is a valid program all the same)
                let (l, text, msgs) = fails(prog, seed).unwrap();
                let min = shrink_program(prog, &mut |p| fails(p, seed).is_some(), 600);
                cells.push((format!("rejected/in:{ctx}/sequence:{}", skel_program(&min)), format!("layout {l}: {text:?}: {msgs:?}")));
            }
            for (c, d) in cells {
                obs.violate(c, d);
            }
        }
    }
    let lay = Layout::plain();
    obs.note = format!("{:?} accepted with zero diagnostics under 4 layouts", crate::worker::truncate(&print_program(prog, &lay).text, 300));
    obs.done(prog.len() >= 1);
}

// ---- expression forms x positions

pub const EXPR_POSITIONS: &[&str] = &[
    "initializer", "assign-rhs", "condition", "call-argument", "index", "range-bound", "gate-parameter", "return-value", "cast-operand", "switch-control", "case-value",
    "for-set-element", "pow-exponent", "binary-operand", "expr-stmt",
];

fn expr_forms(g: &mut MG) -> Vec<(String, E)> {
    let mut v: Vec<(String, E)> = Vec::new();
    let id = |g: &mut MG, n: &str| g.e(EK::Ident(n.to_string()));
    let a = id(g, "a");
    v.push(("ident".into(), a));
    for (n, k) in [
        ("int", EK::Int("42".into())),
        ("int-hex", EK::Int("0xFF".into())),
        ("int-underscore", EK::Int("1_000".into())),
        ("float", EK::Float("1.5".into())),
        ("float-exp", EK::Float("1e-3".into())),
        ("float-leading-dot", EK::Float(".5".into())),
        ("bool", EK::Bool(true)),
        ("bitstr", EK::BitStr("\"0101\"".into())),
        ("timing", EK::Timing("10".into(), "ns".into(), false)),
        ("timing-float", EK::Timing("1.5".into(), "µs".into(), true)),
        ("imag", EK::Imag("2".into(), false)),
        ("imag-float", EK::Imag("2.5".into(), true)),
    ] {
        let e = g.e(k);
        v.push((n.into(), e));
    }
    for op in [UnOp::Neg, UnOp::BitNot, UnOp::Not] {
        let a = id(g, "a");
        let e = g.e(EK::Unary(op, Box::new(a)));
        v.push((format!("unary{}", op.text()), e));
    }
    for op in ALL_BINOPS {
        let a = id(g, "a");
        let b = id(g, "b");
        let e = g.e(EK::Binary(op, Box::new(a), Box::new(b)));
        v.push((format!("binary{}", op.text()), e));
    }
    {
        let a = id(g, "a");
        let e = g.e(EK::Cast(MTy::new(Base::Int, Some(8)), Box::new(a)));
        v.push(("cast-width".into(), e));
        let a = id(g, "a");
        let e = g.e(EK::Cast(MTy::new(Base::Float, None), Box::new(a)));
        v.push(("cast".into(), e));
        let a = id(g, "a");
        let b = g.e(EK::Int("1".into()));
        let e = g.e(EK::Call("f".into(), vec![a, b]));
        v.push(("call".into(), e));
        let e = g.e(EK::Call("f".into(), vec![]));
        v.push(("call-noargs".into(), e));
        let a = id(g, "a");
        let i = g.e(EK::Int("0".into()));
        let e = g.e(EK::Index(Box::new(a), vec![MIndex::List(vec![i])]));
        v.push(("indexed-ident".into(), e));
        let a = id(g, "a");
        let i = g.e(EK::Int("0".into()));
        let j = g.e(EK::Int("1".into()));
        let e = g.e(EK::Index(Box::new(a), vec![MIndex::List(vec![i]), MIndex::List(vec![j])]));
        v.push(("indexed-ident-2".into(), e));
        let a = id(g, "a");
        let lo = g.e(EK::Int("0".into()));
        let hi = g.e(EK::Int("3".into()));
        let r = g.e(EK::Range(Box::new(lo), None, Box::new(hi)));
        let e = g.e(EK::Index(Box::new(a), vec![MIndex::List(vec![r])]));
        v.push(("slice".into(), e));
        let a = id(g, "a");
        let x = g.e(EK::Int("0".into()));
        let y = g.e(EK::Int("2".into()));
        let e = g.e(EK::Index(Box::new(a), vec![MIndex::Set(vec![x, y])]));
        v.push(("index-set".into(), e));
        let a = id(g, "a");
        let c = g.e(EK::Call("f".into(), vec![a]));
        let i = g.e(EK::Int("0".into()));
        let e = g.e(EK::Index(Box::new(c), vec![MIndex::List(vec![i])]));
        v.push(("index-of-call".into(), e));
        let a = id(g, "a");
        let b = id(g, "b");
        let s = g.e(EK::Binary(BinOp::Add, Box::new(a), Box::new(b)));
        let i = g.e(EK::Int("0".into()));
        let e = g.e(EK::Index(Box::new(s), vec![MIndex::List(vec![i])]));
        v.push(("index-of-paren".into(), e));
    }
    v
}

fn place(g: &mut MG, pos: &str, e: E) -> Vec<S> {
    let id = |g: &mut MG, n: &str| g.e(EK::Ident(n.to_string()));
    match pos {
        "initializer" => vec![g.s(SK::Decl(false, MTy::new(Base::Float, Some(64)), "v".into(), Some(e)))],
        "assign-rhs" => {
            let t = id(g, "v");
            vec![g.s(SK::Assign(t, None, e))]
        }
        "condition" => {
            let b = g.s(SK::Break);
            vec![g.s(SK::If(e, Body::Block(vec![b]), None))]
        }
        "call-argument" => {
            let one = g.e(EK::Int("1".into()));
            let c = g.e(EK::Call("f".into(), vec![one, e]));
            vec![g.s(SK::ExprStmt(c))]
        }
        "index" => {
            let b = id(g, "arr");
            let ix = g.e(EK::Index(Box::new(b), vec![MIndex::List(vec![e])]));
            vec![g.s(SK::Decl(false, MTy::new(Base::Int, None), "v".into(), Some(ix)))]
        }
        "range-bound" => {
            let b = id(g, "arr");
            let lo = g.e(EK::Int("0".into()));
            let r = g.e(EK::Range(Box::new(lo), None, Box::new(e)));
            let ix = g.e(EK::Index(Box::new(b), vec![MIndex::List(vec![r])]));
            vec![g.s(SK::Decl(false, MTy::new(Base::Int, None), "v".into(), Some(ix)))]
        }
        "gate-parameter" => {
            let q = id(g, "q");
            vec![g.s(SK::GateCall(vec![], "rx".into(), Some(vec![e]), vec![q]))]
        }
        "return-value" => vec![g.s(SK::Return(Some(e)))],
        "cast-operand" => {
            let c = g.e(EK::Cast(MTy::new(Base::Int, Some(8)), Box::new(e)));
            vec![g.s(SK::Decl(false, MTy::new(Base::Int, Some(8)), "v".into(), Some(c)))]
        }
        "switch-control" => {
            let b = g.s(SK::Break);
            vec![g.s(SK::Switch(e, vec![], Some(vec![b])))]
        }
        "case-value" => {
            let c = id(g, "c");
            vec![g.s(SK::Switch(c, vec![(vec![e], vec![])], None))]
        }
        "for-set-element" => {
            let one = g.e(EK::Int("1".into()));
            vec![g.s(SK::For(MTy::new(Base::Int, None), "i".into(), Iterable::Set(vec![one, e]), Body::Block(vec![])))]
        }
        "pow-exponent" => {
            let q = id(g, "q");
            vec![g.s(SK::GateCall(vec![Modifier::Pow(e)], "x".into(), None, vec![q]))]
        }
        "binary-operand" => {
            let one = id(g, "w");
            let b = g.e(EK::Binary(BinOp::Mul, Box::new(one), Box::new(e)));
            vec![g.s(SK::Decl(false, MTy::new(Base::Float, None), "v".into(), Some(b)))]
        }
        _ => vec![g.s(SK::ExprStmt(e))],
    }
}

impl Property for C04 {
    fn id(&self) -> &'static str {
        "C04"
    }
    fn rule(&self) -> &'static str {
        "Programs are built from a reference model of the supported OpenQASM 3 subset and printed by the harness's own pretty-printer (minimal parentheses by the OpenQASM precedence table) under 4 layouts (sparse, dense trivia with comments between any two tokens, line-broken with redundant parentheses, tight). Streams: (a) construct x context table: every statement kind of the generator x 13 contexts (top level, gate/def body, if/else/while/for bodies as block and as single statement, case, default) x 6 variants; (b) expression form x position table: 47 expression forms (identifier, every literal class, 3 unary and 19 binary operators, casts, calls, indexed identifiers, slices, index sets, index of call / parenthesised expression) x 15 positions; (c) random programs (depth <= 4) in the `avoid` profile (recorded known-finding triggers not emitted) and (d) in the `full` profile. Oracle: zero diagnostics from SourceFile::parse and SourceFile::parse_check_lex. A rejected program is reduced to every innermost failing construct, each shrunk while it keeps failing; the cell is the skeleton of the shrunk construct plus its context. Non-trivial: all. Distinct: program skeleton."
    }
    fn streams(&self, tier: Tier, seed: u64) -> Vec<Stream> {
        let nctx = CONTEXTS.len() as u64;
        let variants = tier.pick(6u64, 40u64);
        let mut r0 = Rng::new(1);
        let nforms = {
            let mut g = MG::new(&mut r0, GenCfg::syntax());
            expr_forms(&mut g).len() as u64
        };
        let npos = EXPR_POSITIONS.len() as u64;
        vec![
            Stream::new("construct-x-context-table", N_STMT_KINDS * nctx * variants, true, move |i| {
                format!("ctx:{}:{}:{}", i % N_STMT_KINDS, (i / N_STMT_KINDS) % nctx, i / N_STMT_KINDS / nctx)
            }),
            Stream::new("expression-form-x-position-table", nforms * npos, true, move |i| format!("expr:{}:{}", i % nforms, i / nforms)),
            Stream::new("random-programs-avoid-profile", tier.pick(12_000, 600_000), false, move |i| format!("rand:avoid:{}", mix(&[seed, 0xC04, 1, i]))),
            Stream::new("random-programs-full-profile", tier.pick(6_000, 300_000), false, move |i| format!("rand:full:{}", mix(&[seed, 0xC04, 2, i]))),
            {
                let cases: Vec<String> = (0..text_form_count()).filter_map(text_form_case).collect();
                Stream::new("text-forms-beyond-the-model", cases.len() as u64, true, move |i| cases[i as usize].clone())
            },
        ]
    }
    fn check(&self, input: &str, obs: &mut Obs) {
        let parts: Vec<&str> = input.split(':').collect();
        match parts[0] {
            "ctx" => {
                let k: u64 = parts[1].parse().unwrap_or(0);
                let c: usize = parts[2].parse().unwrap_or(0);
                let v: u64 = parts[3].parse().unwrap_or(0);
                let mut r = Rng::new(mix(&[0xC04, k, v]));
                let mut g = MG::new(&mut r, GenCfg { max_depth: 2, expr_depth: 2, ..GenCfg::syntax() });
                // kinds that exist only at top level are generated there regardless of context
                let s = match g.stmt_k(k) {
                    Some(s) => s,
                    None => {
                        obs.done(false);
                        obs.note = "statement kind not available in this profile".into();
                        return;
                    }
                };
                let ctx = CONTEXTS[c % CONTEXTS.len()];
                // definitions and includes are only legal at the top level
                let ctx = if matches!(s.k, SK::Gate(..) | SK::Def(..) | SK::Include(_) | SK::Version(_)) { "top" } else { ctx };
                // an annotation needs a following statement
                let mut next = g.next_id + 1000;
                let mut prog = if matches!(s.k, SK::Annotation(_)) {
                    let d = g.decl();
                    let mut p = in_context(ctx, s, &mut next);
                    if ctx == "top" {
                        p.push(d);
                    }
                    p
                } else {
                    in_context(ctx, s, &mut next)
                };
                if matches!(ctx, "if-single" | "else-single" | "while-single" | "for-single") {
                    // an annotation cannot be a single-statement body
                    if let Some(S { k: SK::If(_, Body::Single(b), _), .. } | S { k: SK::While(_, Body::Single(b)), .. } | S { k: SK::For(_, _, _, Body::Single(b)), .. }) = prog.first() {
                        if matches!(b.k, SK::Annotation(_) | SK::Pragma(_)) {
                            obs.done(false);
                            return;
                        }
                    }
                    if let Some(S { k: SK::If(_, _, Some(Body::Single(b))), .. }) = prog.first() {
                        if matches!(b.k, SK::Annotation(_) | SK::Pragma(_)) {
                            obs.done(false);
                            return;
                        }
                    }
                }
                obs.class(&format!("context:{ctx}"));
                check_program(&mut prog, ctx, mix(&[k, v]), obs);
            }
            "expr" => {
                let f: usize = parts[1].parse().unwrap_or(0);
                let p: usize = parts[2].parse().unwrap_or(0);
                let mut r = Rng::new(3);
                let mut g = MG::new(&mut r, GenCfg::syntax());
                let forms = expr_forms(&mut g);
                let (fname, e) = forms[f % forms.len()].clone();
                let pos = EXPR_POSITIONS[p % EXPR_POSITIONS.len()];
                // `measure` and ranges are not general expressions; timing literals are fine everywhere
                let prog = place(&mut g, pos, e);
                obs.class(&format!("position:{pos}"));
                let _ = fname;
                check_program(&prog, &format!("pos:{pos}"), 11, obs);
            }
            "rand" => {
                let full = parts[1] == "full";
                let seed: u64 = parts[2].parse().unwrap_or(0);
                let mut r = Rng::new(seed);
                let cfg = if full { GenCfg::syntax() } else { GenCfg { syn_safe: true, ..GenCfg::syntax() } };
                let mut g = MG::new(&mut r, cfg);
                let prog = g.program();
                let lay_fix = !full;
                if lay_fix {
                    // the avoid profile parenthesises non-atomic right-hand sides of `=`
                    check_program_avoid(&prog, seed, obs);
                } else {
                    check_program(&prog, "top", seed, obs);
                }
            }
            "lit" => {
                // `lit:<label>|<source text asserted to be a valid program>`
                let rest = &input[4..];
                let (label, src) = rest.split_once('|').unwrap_or(("?", rest));
                obs.fp.str(src);
                match diagnostics(src) {
                    Ok((0, _)) => {}
                    Ok((_, msgs)) => obs.violate(format!("rejected/in:witness/{label}"), format!("{src:?}: {msgs:?}")),
                    Err(site) => obs.violate(format!("rejected/in:witness/{label}:panic"), format!("{src:?}: {site}")),
                }
                obs.done(true);
            }
            _ => obs.inconclusive("unrecognised input spec"),
        }
    }
    fn mandatory_classes(&self, _tier: Tier) -> Vec<&'static str> {
        vec!["context:top", "context:else-single", "context:case-body", "position:initializer", "position:gate-parameter"]
    }
}

/// Valid forms that the statement model does not print: I/O declarations of array types, array
/// declarations and array reference parameters, and the white space right after the `pragma` /
/// annotation keyword (the OpenQASM 3 lexer grammar separates it from the text with `[ \t]+`).
const TEXT_FORMS: &[(&str, &str)] = &[
    ("io-array", "input array[int[8], 4] a;"),
    ("io-array", "output array[float[64], 2, 3] m;"),
    ("io-array", "input array[bool, 2] b;"),
    ("io-array", "input array[complex[float[32]], 2] c;"),
    ("io-array", "output array[angle[16], 3] g;"),
    ("io-array", "input array[uint, 1] u;"),
    ("io-array", "input array[duration, 2] d;"),
    ("array-decl", "array[int[8], 4] a;"),
    ("array-decl", "array[uint[16], 2, 2] a = {{1, 2}, {3, 4}};"),
    ("array-decl", "array[float[32], 3] a = {1.0, 2.0, 3.0};"),
    ("array-ref-param", "def f(readonly array[int[8], 4] a) { }"),
    ("array-ref-param", "def f(mutable array[int[8], #dim = 2] a) { }"),
    ("array-ref-param", "def f(readonly array[float[64], 2, 3] a, int n) -> int { return n; }"),
    ("array-dimensions", "array[int[8], 2, 2] a;"),
    ("array-dimensions", "array[int[8], 2, 2, 2, 2, 2] a;"),
    ("array-dimensions", "array[int[8], 2, 2, 2, 2, 2, 2] a;"),
    ("array-dimensions", "array[int[8], 2, 2, 2, 2, 2, 2, 2] a;"),
    ("array-dimensions", "def f(readonly array[int[8], 2, 2, 2, 2, 2, 2, 2] a) { }"),
    ("range-ending-in-zero", "for int i in [7:-1:0] { }"),
    ("range-ending-in-zero", "for int i in [-3:0] { }"),
    ("range-ending-in-zero", "qubit[4] q; let r = q[3:0];"),
    ("range-ending-in-zero", "bit[4] c; bit[2] d = c[1:0];"),
    ("range-ending-in-zero", "bit[4] c; bit[4] d = c[3:-1:0];"),
    ("range-ending-in-zero", "bit[4] c; bit[1] d = c[0:0];"),
    ("range-starting-at-zero", "bit[4] c; bit[2] d = c[0:2:3];"),
    ("delay-without-operands", "delay[10ns];"),
    ("delay-without-operands", "duration d = 1ns; delay[d];"),
    ("delay-without-operands", "gate g q { delay[2dt]; }"),
    ("barrier-without-operands", "barrier;"),
    ("leading-zero-literal", "int x = 007;"),
    ("leading-zero-literal", "float f = 00.5;"),
    ("leading-zero-literal", "int[8] a; a[00] = 01;"),
    ("leading-zero-literal", "int y = 0_0 + 00_1;"),
    ("leading-zero-literal", "duration t = 00ns;"),
    ("leading-zero-literal", "float g = 00e1;"),
    ("pragma-keyword-gap", "pragma§user alpha 2.0\nint x;"),
    ("pragma-keyword-gap", "#pragma§user alpha 2.0\nint x;"),
    ("pragma-keyword-gap", "int x;\npragma§note\nint y;"),
    ("annotation-keyword-gap", "@ann§word 1 2\nint x;"),
];
const TEXT_GAPS: &[(&str, &str)] = &[("blank", " "), ("tab", "\t"), ("two-blanks", "  "), ("blank-tab", " \t"), ("tab-blank", "\t ")];
const TEXT_SEPS: &[(&str, &str)] = &[("blank", " "), ("tab", "\t"), ("line-break", "\n"), ("crlf", "\r\n"), ("block-comment", " /* c */ "), ("line-comment", " // c\n")];

fn text_form_count() -> u64 {
    (TEXT_FORMS.len() * TEXT_GAPS.len().max(TEXT_SEPS.len())) as u64
}

fn text_form_case(i: u64) -> Option<String> {
    let (label, form) = TEXT_FORMS[i as usize % TEXT_FORMS.len()];
    let v = i as usize / TEXT_FORMS.len();
    if form.contains('§') {
        let (g, gap) = TEXT_GAPS.get(v)?;
        Some(format!("lit:{label}/{g}|{}", form.replace('§', gap)))
    } else {
        let (sname, sep) = TEXT_SEPS.get(v)?;
        Some(format!("lit:{label}/{sname}|{}", form.replace(' ', sep)))
    }
}

fn fails_avoid(prog: &[S], seed: u64) -> Option<(String, String, Vec<String>)> {
    for (lname, mut lay) in layouts(seed) {
        lay.paren_assign_rhs = true;
        let p = print_program(prog, &lay);
        match diagnostics(&p.text) {
            Ok((0, _)) => {}
            Ok((_, msgs)) => return Some((lname.to_string(), p.text, msgs)),
            Err(site) => return Some((format!("{lname}:panic"), p.text, vec![site])),
        }
    }
    None
}

fn check_program_avoid(prog: &[S], seed: u64, obs: &mut Obs) {
    let sk = skel_program(prog);
    obs.fp.str(&sk);
    for s in prog {
        obs.count(&format!("stmt:{}", stmt_kind_name(&s.k)));
    }
    if let Some((l, _, _)) = fails_avoid(prog, seed) {
        let min = shrink_program(prog, &mut |p| fails_avoid(p, seed).is_some(), 1500);
        let (_, text, msgs) = fails_avoid(&min, seed).unwrap_or((l.clone(), String::new(), vec![]));
        obs.violate(format!("rejected/avoid-profile/{}", skel_program(&min)), format!("layout {l}: {text:?}: {msgs:?}"));
    }
    obs.note = format!("{} statements accepted under 4 layouts", prog.len());
    obs.done(true);
}

//! C14 — tokens partition the input on character boundaries.

use crate::gen::strings;
use crate::rng::{mix, Rng};
use crate::worker::{guard, Obs, Property, Stream, Tier};
use oq3_lexer::TokenKind;
use oq3_parser::LexedStr;

pub struct C14;

pub const ALPHA_A: &[char] = &['0', '1', 'b', 'e', '.', '_', '"', '/', '*', '\n', '#', '$', 'µ', '\0'];
pub const ALPHA_B: &[char] = &['x', 'O', 'p', '\'', '-', '+', 'é', '😀', '\r', '@', ' '];

/// byte order mark, the rarer members of the lexer's whitespace set, a unit, a statement, two invisible
/// format characters (zero width space, word joiner) that are not white space for the lexer
pub const ALPHA_C: &[char] = &['\u{feff}', '\u{000B}', '\u{0085}', '\u{2028}', 'x', '2', 's', ';', '\t', '\u{200B}', '\u{2060}'];

/// the characters at the boundaries of the UTF-8 encoding lengths (1|2, 2|3, 3|4 bytes, the last code
/// point), two blanks outside the lexer's whitespace set, and three ASCII neighbours
pub const ALPHA_D: &[char] = &['\u{7f}', '\u{80}', '\u{81}', '\u{7ff}', '\u{800}', '\u{ffff}', '\u{10000}', '\u{10ffff}', '\u{a0}', '\u{3000}', ' ', 'a', '1'];

fn alpha(id: &str) -> &'static [char] {
    match id {
        "A" => ALPHA_A,
        "C" => ALPHA_C,
        "D" => ALPHA_D,
        _ => ALPHA_B,
    }
}

/// Number of blocks for strings of exactly `len` over an alphabet of `n`: the block fixes
/// the first `len-2` characters, the monitor enumerates the last (up to) two.
fn blocks(n: u64, len: u32) -> u64 {
    if len <= 2 {
        1
    } else {
        n.pow(len - 2)
    }
}

fn char_class(c: Option<char>) -> &'static str {
    match c {
        None => "none",
        Some(c) if c.is_ascii_digit() => "digit",
        Some('"') | Some('\'') => "quote",
        Some('/') => "slash",
        Some('.') => "dot",
        Some('#') | Some('@') | Some('$') => "sigil",
        Some(c) if c.is_whitespace() => "space",
        Some(c) if c.is_alphabetic() || c == '_' => "letter",
        Some(c) if !c.is_ascii() => "non-ascii",
        Some(_) => "other",
    }
}

fn kind_code(k: &TokenKind) -> u64 {
    // A stable small code for fingerprinting (Debug text would be slow).
    use TokenKind::*;
    match k {
        LineComment => 1,
        BlockComment { terminated } => 2 + *terminated as u64,
        Whitespace => 4,
        Ident => 5,
        HardwareIdent => 6,
        InvalidIdent => 7,
        OpenQasmVersionStmt { major, minor } => 8 + *major as u64 * 2 + *minor as u64,
        Pragma => 12,
        Dim => 13,
        Annotation => 14,
        Literal { kind, .. } => {
            use oq3_lexer::LiteralKind::*;
            20 + match kind {
                Int { base, empty_int } => *base as u64 * 2 + *empty_int as u64,
                Float { base, empty_exponent } => 40 + *base as u64 * 2 + *empty_exponent as u64,
                Byte { terminated } => 80 + *terminated as u64,
                Str { terminated } => 82 + *terminated as u64,
                BitStr {
                    terminated,
                    consecutive_underscores,
                } => 84 + *terminated as u64 * 2 + *consecutive_underscores as u64,
            }
        }
        Unknown => 15,
        Eof => 16,
        other => 200 + (format!("{other:?}").len() as u64) * 7 + format!("{other:?}").as_bytes()[0] as u64,
    }
}

/// The monitor for one string. Returns false if a violation was recorded.
pub fn check_string(s: &str, obs: &mut Obs) {
    obs.fp.u64(0xC14);
    // -- raw lexer
    let r = guard(|| {
        let toks: Vec<(TokenKind, u32)> = oq3_lexer::tokenize(s).map(|t| (t.kind, t.len)).collect();
        toks
    });
    let toks = match r {
        Ok(t) => t,
        Err(p) => {
            obs.violate(format!("lexer-panic/{}", p.site()), format!("{:?}: {}:{} {}", s, p.file, p.line, p.msg));
            obs.done(true);
            return;
        }
    };
    let mut off = 0usize;
    for (i, (kind, len)) in toks.iter().enumerate() {
        let first = s[off.min(s.len())..].chars().next();
        let len = *len as usize;
        if len == 0 {
            obs.violate(format!("zero-length-token/{}", char_class(first)), format!("{s:?}: token {i} {kind:?} has length 0"));
            break;
        }
        if off + len > s.len() {
            obs.violate(format!("token-past-end/{}", char_class(first)), format!("{s:?}: token {i} {kind:?} ends at {} > {}", off + len, s.len()));
            break;
        }
        if !s.is_char_boundary(off + len) {
            obs.violate(format!("token-end-not-char-boundary/{}", char_class(first)), format!("{s:?}: token {i} {kind:?} ends at {}", off + len));
            break;
        }
        if let TokenKind::Literal { suffix_start, .. } = kind {
            if *suffix_start as usize > len {
                obs.violate(format!("suffix-start-past-token/{}", char_class(first)), format!("{s:?}: token {i} {kind:?} len {len}"));
            }
        }
        obs.fp.u64(kind_code(kind));
        obs.fp.u64(len as u64);
        off += len;
    }
    if obs.violations.is_empty() && off != s.len() {
        obs.violate("lengths-do-not-sum/any", format!("{s:?}: sum {off} != {}", s.len()));
    }
    // -- determinism
    let again = guard(|| oq3_lexer::tokenize(s).map(|t| (t.kind, t.len)).collect::<Vec<_>>());
    match again {
        Ok(a) => {
            if a != toks {
                obs.violate("nondeterministic/any", format!("{s:?}: two lexings differ"));
            }
        }
        Err(p) => obs.violate(format!("lexer-panic/{}", p.site()), format!("{s:?} (second lexing)")),
    }
    // -- parser-facing table
    let r = guard(|| {
        let lx = LexedStr::new(s);
        let n = lx.len();
        let mut problems: Vec<(String, String)> = Vec::new();
        let mut prev_start: Option<usize> = None;
        let mut cat = String::new();
        for i in 0..n {
            let st = lx.text_start(i);
            if let Some(p) = prev_start {
                if st <= p {
                    problems.push(("table-starts-not-increasing".into(), format!("token {i}: start {st} after {p}")));
                }
            } else if st != 0 {
                problems.push(("table-first-start-nonzero".into(), format!("start {st}")));
            }
            prev_start = Some(st);
            let r = lx.text_range(i);
            if r.start != st || r.end != lx.text_start(i + 1) {
                problems.push(("table-range-mismatch".into(), format!("token {i}: {r:?}")));
            }
            let t = lx.text(i);
            if t.is_empty() {
                problems.push(("table-empty-token".into(), format!("token {i}")));
            }
            if lx.text_len(i) != t.len() {
                problems.push(("table-len-mismatch".into(), format!("token {i}")));
            }
            let _ = lx.kind(i);
            cat.push_str(t);
        }
        if lx.text_start(n) != s.len() {
            problems.push(("table-end-not-len".into(), format!("{} != {}", lx.text_start(n), s.len())));
        }
        if cat != s {
            problems.push(("table-slices-do-not-spell-input".into(), String::new()));
        }
        if n > 0 {
            if lx.range_text(0..n) != s {
                problems.push(("table-range-text-mismatch".into(), String::new()));
            }
        }
        if lx.as_str() != s {
            problems.push(("table-as-str-mismatch".into(), String::new()));
        }
        for (ti, _msg) in lx.errors() {
            if ti >= n {
                problems.push(("table-error-index-out-of-range".into(), format!("{ti} >= {n}")));
            }
        }
        (n, problems)
    });
    match r {
        Ok((n, problems)) => {
            for (clause, d) in problems {
                obs.violate(format!("{clause}/{}", char_class(s.chars().next())), format!("{s:?}: {d}"));
            }
            let nontriv_tokens = toks.iter().filter(|(k, _)| !matches!(k, TokenKind::Whitespace)).count();
            if n != toks.len() {
                obs.violate("table-token-count/any", format!("{s:?}: {} lexer tokens, {n} table entries", toks.len()));
            }
            obs.done(nontriv_tokens >= 2);
        }
        Err(p) => {
            obs.violate(format!("table-panic/{}", p.site()), format!("{s:?}: {}:{} {}", p.file, p.line, p.msg));
            obs.done(true);
        }
    }
}

impl Property for C14 {
    fn id(&self) -> &'static str {
        "C14"
    }
    fn rule(&self) -> &'static str {
        "Streams: (1) bounded-exhaustive: every string of length <= L over the 14-character alphabet A = {0 1 b e . _ \" / * \\n # $ µ NUL} (L=5 quick, 6 thorough) and of length <= 4/5 over alphabet B = {x O p ' - + é 😀 \\r @ space}, enumerated in blocks that fix a prefix; (2) random strings (length <= 64) over a 40-character hostile alphabet; (3) mutated programs/snippets. Each string is one evaluation. Non-trivial: the lexer produced >= 2 non-whitespace tokens. Distinct: distinct fingerprints of the observed (token kind, length) sequence."
    }
    fn streams(&self, tier: Tier, seed: u64) -> Vec<Stream> {
        let mut v = Vec::new();
        let la = tier.pick(5, 6);
        let lb = tier.pick(4, 5);
        for (id, maxlen) in [("A", la), ("B", lb), ("C", lb), ("D", lb)] {
            let n = alpha(id).len() as u64;
            for len in 0..=maxlen {
                let id2 = id.to_string();
                v.push(Stream::new(
                    &format!("exhaustive-{id}-len{len}"),
                    blocks(n, len),
                    true,
                    move |i| format!("blk:{id2}:{len}:{i}"),
                ));
            }
        }
        let nrand = tier.pick(40_000, 3_000_000);
        v.push(Stream::new("random-hostile", nrand, false, move |i| {
            let mut r = Rng::new(mix(&[seed, 0x14, i]));
            format!("s:{}", strings::hostile_string(&mut r, 64))
        }));
        v.push(Stream::new("seed-programs-bom-line-ending-whitespace-variants", strings::file_variant_count(), true, |i| {
            format!("s:{}", strings::file_variant_case(i))
        }));
        {
            let th = matches!(tier, Tier::Thorough);
            v.push(Stream::new("repeated-fragments-across-size-boundaries", strings::repeated_count(th), true, move |i| format!("s:{}", strings::repeated_case(i, th))));
        }
        let nmut = tier.pick(20_000, 1_000_000);
        v.push(Stream::new("mutated-programs", nmut, false, move |i| {
            let mut r = Rng::new(mix(&[seed, 0x1401, i]));
            format!("s:{}", strings::mutated_program(&mut r))
        }));
        v
    }
    fn check(&self, input: &str, obs: &mut Obs) {
        if let Some(s) = input.strip_prefix("s:") {
            check_string(s, obs);
            if obs.note.is_empty() {
                let n = oq3_lexer::tokenize(s).count();
                obs.note = format!("{n} tokens, lengths sum to {}", s.len());
            }
            return;
        }
        if let Some(rest) = input.strip_prefix("blk:") {
            let parts: Vec<&str> = rest.split(':').collect();
            let al = alpha(parts[0]);
            let len: usize = parts[1].parse().unwrap();
            let mut idx: u64 = parts[2].parse().unwrap();
            let n = al.len() as u64;
            let fixed = len.saturating_sub(2);
            let mut prefix = String::new();
            for _ in 0..fixed {
                prefix.push(al[(idx % n) as usize]);
                idx /= n;
            }
            let free = len - fixed;
            let mut s = String::new();
            let mut count = 0u64;
            let total = n.pow(free as u32);
            for k in 0..total {
                s.clear();
                s.push_str(&prefix);
                let mut kk = k;
                for _ in 0..free {
                    s.push(al[(kk % n) as usize]);
                    kk /= n;
                }
                check_string(&s, obs);
                count += 1;
            }
            obs.count_n("strings-in-exhaustive-blocks", count);
            obs.note = format!("block of {count} strings with prefix {prefix:?}, all partitioned");
            return;
        }
        obs.inconclusive("unrecognised input spec");
    }
    fn mandatory_classes(&self, _tier: Tier) -> Vec<&'static str> {
        vec![]
    }
}

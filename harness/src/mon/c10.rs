//! C10 — literal values reach the semantic graph exactly.
//!
//! The generator chooses the mathematical value first, then spells it; the case string carries
//! both (`L|<position>|<class>|<minus>|<literal text>|<expected…>`), so every case is
//! self-describing and replayable.

use crate::gen::lexemes::*;
use crate::rng::{mix, Rng};
use crate::worker::{guard, Obs, Property, Stream, Tier};
use oq3_semantics::asg::{self, Expr, Literal, Stmt, TExpr};
use oq3_semantics::syntax_to_semantics::parse_source_string;
use oq3_semantics::types::{ArrayDims, Type};
use oq3_syntax::ast::{self, AstNode};
use oq3_syntax::SourceFile;

pub struct C10;

const POSITIONS: &[&str] = &["init", "assign", "gatearg"];

fn decl_type(class: &str) -> &'static str {
    match class {
        "int" => "int[128]",
        "float" => "float[64]",
        "bits" => "bit[4]",
        "tint" | "tfloat" => "duration",
        "iint" | "ifloat" => "complex[float[64]]",
        _ => "bool",
    }
}

/// minus: "" none, "-" attached, "- " with a space; a form with the placeholder `§` wraps the literal
/// (`-(-§)`, `- -§`): the value is negative iff the number of minus signs is odd
fn source(pos: &str, class: &str, minus: &str, lit: &str) -> String {
    let ty = decl_type(class);
    let e = if minus.contains('§') { minus.replace('§', lit) } else { format!("{minus}{lit}") };
    match pos {
        "init" => format!("{ty} v = {e};"),
        "assign" => format!("{ty} v;\nv = {e};"),
        _ => format!("U({e}, 0, 0) $0;"),
    }
}

/// Unary minus nodes (and parentheses / casts) around the literal: returns the innermost expression and
/// whether an odd number of minus nodes was crossed.
fn strip_minus_nodes(e: &TExpr) -> (&TExpr, bool) {
    let mut cur = strip_casts(e);
    let mut flipped = false;
    loop {
        match cur.expression() {
            Expr::UnaryExpr(u) if matches!(u.op(), oq3_semantics::asg::UnaryOp::Minus) => {
                flipped = !flipped;
                cur = strip_casts(u.operand());
            }
            _ => return (cur, flipped),
        }
    }
}

fn strip_casts(e: &TExpr) -> &TExpr {
    let mut cur = e;
    while let Expr::Cast(c) = cur.expression() {
        cur = c.operand();
    }
    cur
}

fn unit_name(u: &asg::TimeUnit) -> &'static str {
    match u {
        asg::TimeUnit::Second => "s",
        asg::TimeUnit::MilliSecond => "ms",
        asg::TimeUnit::MicroSecond => "us",
        asg::TimeUnit::NanoSecond => "ns",
        asg::TimeUnit::Cycle => "dt",
    }
}

fn norm_unit(u: &str) -> &str {
    if u == "µs" {
        "us"
    } else {
        u
    }
}

fn parse_ref_f64(canon: &str) -> Option<f64> {
    canon.parse::<f64>().ok()
}

fn feature(lit: &str, class: &str) -> String {
    let mut f = Vec::new();
    if lit.contains('_') {
        f.push("underscore");
    }
    if lit.starts_with("0x") || lit.starts_with("0X") {
        f.push("hex");
    } else if lit.starts_with("0b") || lit.starts_with("0B") {
        f.push("bin");
    } else if lit.starts_with("0o") || lit.starts_with("0O") {
        f.push("oct");
    } else if class == "int" || class == "tint" || class == "iint" {
        f.push("dec");
    }
    if lit.len() >= 2 && lit.as_bytes()[1].is_ascii_uppercase() && lit.starts_with('0') {
        f.push("upper-prefix");
    }
    if lit.starts_with('.') {
        f.push("leading-dot");
    }
    if lit.contains('e') || lit.contains('E') {
        if !(lit.starts_with("0x") || lit.starts_with("0X")) {
            f.push("exponent");
        }
    }
    if lit.contains(' ') {
        f.push("spaced-unit");
    }
    if f.is_empty() {
        "plain".to_string()
    } else {
        f.join("+")
    }
}

fn check_case(spec: &str, obs: &mut Obs) {
    let parts: Vec<&str> = spec.split('|').collect();
    if parts.len() < 6 {
        obs.inconclusive("malformed case spec");
        return;
    }
    let (pos, class, minus, lit) = (parts[1], parts[2], parts[3], parts[4]);
    let expect = &parts[5..];
    let src = source(pos, class, minus, lit);
    obs.fp.str(&src);
    let neg = minus.matches('-').count() % 2 == 1;
    let nested_minus = minus.contains('§');
    let cell = |clause: &str| format!("{class}/{}/{}/{pos}/{clause}", feature(lit, class), if neg { "negated" } else { "plain" });
    // ---- AST accessors
    let ast_r = guard(|| {
        let p = SourceFile::parse(&src);
        let errs = p.errors().len();
        let mut found: Option<String> = None;
        // the number part of the literal under test and its byte offset in the source
        let numtext: &str = match class {
            "tint" | "tfloat" | "iint" | "ifloat" => {
                let t = lit.trim_end_matches(|c: char| c.is_alphabetic() || c == 'µ');
                t.trim_end()
            }
            _ => lit,
        };
        let at = if pos == "gatearg" { src.find(numtext) } else { src.rfind(numtext) };
        for n in p.syntax_node().descendants() {
            if let Some(l) = ast::Literal::cast(n) {
                let tok = l.token();
                let start: usize = tok.text_range().start().into();
                if Some(start) != at {
                    continue;
                }
                use ast::LiteralKind as K;
                let d = match l.kind() {
                    K::IntNumber(i) => {
                        // the two value accessors of the token must agree
                        let (v, w) = (i.value(), i.value_u128());
                        if v == w {
                            format!("int:{v:?}")
                        } else {
                            format!("int:value()={v:?} but value_u128()={w:?}")
                        }
                    }
                    K::FloatNumber(f) => format!("float:{:?}", f.value()),
                    K::BitString(b) => {
                        // both accessors of the token must agree
                        let v = b.value().map(|c| c.to_string());
                        let s2 = b.str().map(|c| c.to_string());
                        if v == s2 {
                            format!("bits:{v:?}")
                        } else {
                            format!("bits:value()={v:?} but str()={s2:?}")
                        }
                    }
                    K::Bool(b) => format!("bool:{b}"),
                    other => format!("other:{other:?}"),
                };
                found = Some(d);
                break;
            }
        }
        (errs, found)
    });
    let (syn_errs, ast_lit) = match ast_r {
        Ok(x) => x,
        Err(p) => {
            obs.inconclusive(format!("parse panicked: {}", p.site()));
            return;
        }
    };
    if syn_errs > 0 {
        // not an accepted program (e.g. a known C04 finding for this position)
        obs.inconclusive(format!("program rejected by the parser ({syn_errs} diagnostics)"));
        obs.count(&format!("rejected:{pos}:{class}"));
        return;
    }
    let ast_expect = match class {
        "int" | "tint" | "iint" => format!("int:Some({})", expect[0]),
        "float" | "tfloat" | "ifloat" => format!("float:{:?}", parse_ref_f64(expect[0])),
        "bits" => format!("bits:Some({:?})", lit.trim_matches(|c| c == '"' || c == '\'')),
        _ => format!("bool:{}", expect[0]),
    };
    match &ast_lit {
        Some(d) if *d == ast_expect => {}
        other => obs.violate(cell("ast-accessor"), format!("{src:?}: AST literal accessor gives {other:?}, expected {ast_expect}")),
    }
    // ---- semantic graph
    let r = guard(|| {
        let res = parse_source_string(&src, Some("c10.qasm"));
        let stmts = res.program().stmts();
        let last = stmts.last().cloned();
        let nsem = res.semantic_errors().len();
        (last, nsem, res.any_syntax_errors())
    });
    let (last, _nsem, _syn) = match r {
        Ok(x) => x,
        Err(p) => {
            obs.inconclusive(format!("analysis panicked (C03): {}", p.site()));
            obs.count(&format!("analysis-panicked:{class}:{}", if neg { "negated" } else { "plain" }));
            return;
        }
    };
    let texpr: Option<TExpr> = match (&last, pos) {
        (Some(Stmt::DeclareClassical(d)), "init") => d.initializer().cloned(),
        (Some(Stmt::Assignment(a)), "assign") => Some(a.rvalue().clone()),
        (Some(Stmt::GateCall(g)), "gatearg") => g.params().and_then(|p| p.first().cloned()),
        _ => None,
    };
    let Some(texpr) = texpr else {
        obs.violate(cell("literal-not-found-in-graph"), format!("{src:?}: last statement is {last:?}"));
        obs.done(true);
        return;
    };
    // minus signs written around an already negated literal stay unary nodes of the graph: the value
    // of the whole expression is what is compared
    let (inner, flipped) = if nested_minus { strip_minus_nodes(&texpr) } else { (strip_casts(&texpr), false) };
    let neg = neg ^ flipped;
    let got = inner.expression();
    let ty = inner.get_type();
    let mut ok = true;
    let mut why = String::new();
    match (class, got) {
        ("int", Expr::Literal(Literal::Int(i))) | ("iint", Expr::Literal(Literal::ImaginaryInt(i))) => {
            let v: u128 = expect[0].parse().unwrap_or(0);
            if *i.value() != v {
                ok = false;
                why = format!("value {} != {v}", i.value());
            }
            // sign flag: true = non-negative
            if *i.sign() == neg && !(v == 0 && false) {
                ok = false;
                why = format!("{why}; sign flag {} for minus={neg}", i.sign());
            }
        }
        ("float", Expr::Literal(Literal::Float(f))) | ("ifloat", Expr::Literal(Literal::ImaginaryFloat(f))) => {
            let want = parse_ref_f64(expect[0]).map(|x| if neg { -x } else { x });
            let have = f.value().parse::<f64>().ok();
            let same = match (want, have) {
                (Some(a), Some(b)) => a == b || (a.is_nan() && b.is_nan()),
                _ => false,
            };
            if !same {
                ok = false;
                why = format!("stored text {:?} parses to {have:?}, nearest double of the spelling is {want:?}", f.value());
            }
        }
        ("bits", Expr::Literal(Literal::BitString(b))) => {
            let bits: String = b.value().chars().filter(|c| *c != '_').collect();
            if bits != expect[0] {
                ok = false;
                why = format!("bits {:?} != {:?}", bits, expect[0]);
            }
            match ty {
                Type::BitArray(ArrayDims::D1(w), _) if *w == expect[0].len() => {}
                other => {
                    ok = false;
                    why = format!("{why}; type {other:?} for {} bits", expect[0].len());
                }
            }
        }
        ("tint", Expr::Literal(Literal::TimingIntLiteral(t))) => {
            let v: u128 = expect[0].parse().unwrap_or(0);
            if *t.value() != v || unit_name(t.time_unit()) != norm_unit(expect[1]) || !*t.sign() {
                ok = false;
                why = format!("{:?} vs value {v} unit {}", t, expect[1]);
            }
        }
        ("tfloat", Expr::Literal(Literal::TimingFloatLiteral(t))) => {
            let want = parse_ref_f64(expect[0]);
            if Some(*t.value()) != want || unit_name(t.time_unit()) != norm_unit(expect[1]) || !*t.sign() {
                ok = false;
                why = format!("{:?} vs value {want:?} unit {}", t, expect[1]);
            }
        }
        ("bool", Expr::Literal(Literal::Bool(b))) => {
            if b.value().to_string() != expect[0] {
                ok = false;
                why = format!("{} != {}", b.value(), expect[0]);
            }
        }
        (_, other) => {
            ok = false;
            why = format!("graph holds {other:?}, not a {class} literal");
        }
    }
    if !ok {
        obs.violate(cell("graph-value"), format!("{src:?}: {why}"));
    }
    obs.class(&format!("class:{class}"));
    if neg {
        obs.class("negated-literal");
    }
    obs.note = format!("{src:?} -> {:?}", got);
    obs.done(true);
}

fn random_case(r: &mut Rng) -> String {
    let pos = *r.pick(POSITIONS);
    let minus = match r.below(6) {
        0 => "-",
        1 => "- ",
        _ => "",
    };
    match r.below(12) {
        0..=3 => {
            let i = random_int(r);
            format!("L|{pos}|int|{minus}|{}|{}", i.text, i.value)
        }
        4 | 5 => {
            let (t, c) = random_float(r);
            format!("L|{pos}|float|{minus}|{t}|{c}")
        }
        6 => {
            let (t, b) = random_bitstring(r, 256);
            // the front end accepts either quote character for a bit string
            let t = if r.chance(1, 3) { t.replace('"', "'") } else { t };
            format!("L|{}|bits||{t}|{b}", if pos == "gatearg" { "init" } else { pos })
        }
        7 => {
            let radix = *r.pick(&[10u32, 10, 10]);
            let v = random_int_value(r);
            let us = r.below(3) as u32;
            let i = spell_int(v, radix, false, false, us, r);
            let u = *r.pick(UNITS);
            let sp = if r.chance(1, 3) { " " } else { "" };
            format!("L|{}|tint||{}{sp}{u}|{}|{u}", if pos == "gatearg" { "init" } else { pos }, i.text, i.value)
        }
        8 => {
            let (t, c) = random_float(r);
            let u = *r.pick(UNITS);
            let sp = if r.chance(1, 3) { " " } else { "" };
            format!("L|{}|tfloat||{t}{sp}{u}|{c}|{u}", if pos == "gatearg" { "init" } else { pos })
        }
        9 => {
            let v = random_int_value(r);
            let us = r.below(3) as u32;
            let i = spell_int(v, 10, false, false, us, r);
            let sp = if r.chance(1, 3) { " " } else { "" };
            format!("L|{pos}|iint|{minus}|{}{sp}im|{}", i.text, i.value)
        }
        10 => {
            let (t, c) = random_float(r);
            let sp = if r.chance(1, 3) { " " } else { "" };
            format!("L|{pos}|ifloat|{minus}|{t}{sp}im|{c}")
        }
        _ => {
            let b = if r.bool() { "true" } else { "false" };
            format!("L|{}|bool||{b}|{b}", if pos == "gatearg" { "init" } else { pos })
        }
    }
}

/// Boundary table: integers at the edges of every width in every radix/prefix case/underscore
/// placement, and every float shape of the C15 product with every unit.
fn boundary_cases() -> Vec<String> {
    let mut v = Vec::new();
    let mut r = Rng::new(7);
    let vals: Vec<u128> = vec![
        0, 1, 7, 8, 9, 10, 15, 16, 255, 256, (1 << 31) - 1, 1 << 31, (1 << 32) - 1, 1 << 32, (1 << 32) + 1, (1 << 63) - 1, 1 << 63, u64::MAX as u128,
        1 << 64, (1 << 64) + 1, (1u128 << 127) - 1, 1u128 << 127, (1u128 << 127) + 1, u128::MAX - 1, u128::MAX, 0xdead_beef, 0x1e3, 0xb, 0xd7, 0xe, 0xabcdef,
    ];
    for &val in &vals {
        for radix in [2u32, 8, 10, 16] {
            for (up, ud) in [(false, false), (true, true), (false, true)] {
                for us in 0..6u32 {
                    if radix == 10 && us == 3 {
                        continue;
                    }
                    let i = spell_int(val, radix, up, ud, us, &mut r);
                    for minus in ["", "-", "- ", "- -§", "--§", "-(-§)", "-(§)", "-(-(-§))", "(-§)"] {
                        for pos in POSITIONS {
                            v.push(format!("L|{pos}|int|{minus}|{}|{}", i.text, i.value));
                        }
                    }
                    if radix == 10 && !up {
                        for u in UNITS {
                            v.push(format!("L|init|tint||{}{u}|{}|{u}", i.text, i.value));
                        }
                        for minus in ["", "-"] {
                            v.push(format!("L|init|iint|{minus}|{}im|{}", i.text, i.value));
                            v.push(format!("L|init|iint|{minus}|{} im|{}", i.text, i.value));
                        }
                    }
                }
            }
        }
    }
    for ip in ["", "1", "12_3", "0"] {
        for fr in ["", ".", ".5", ".2_5"] {
            for ex in ["", "e3", "E3", "e+3", "E+3", "e-3", "E-3", "e1_0", "E-1_0", "e308", "e-330"] {
                if fr.is_empty() && ex.is_empty() {
                    continue;
                }
                if ip.is_empty() && (fr.is_empty() || fr == ".") {
                    continue;
                }
                let t = format!("{ip}{fr}{ex}");
                let c: String = t.chars().filter(|c| *c != '_').collect();
                for minus in ["", "-", "- "] {
                    for pos in POSITIONS {
                        v.push(format!("L|{pos}|float|{minus}|{t}|{c}"));
                    }
                    v.push(format!("L|init|ifloat|{minus}|{t}im|{c}"));
                    v.push(format!("L|init|ifloat|{minus}|{t} im|{c}"));
                }
                for u in UNITS {
                    v.push(format!("L|init|tfloat||{t}{u}|{c}|{u}"));
                    v.push(format!("L|assign|tfloat||{t} {u}|{c}|{u}"));
                }
            }
        }
    }
    // doubles that need all 17 significant digits, at ordinary and extreme magnitudes, the largest
    // and smallest normal and subnormal values, a tie that must round to even
    for t in [
        "1.7976931348623157e308", "2.2250738585072014e-308", "4.9406564584124654e-324", "5e-324", "2.2250738585072011e-308",
        "1.2345678901234567e20", "1.2345678901234567e-7", "1.2345678901234567", "0.30000000000000004", "9007199254740993.0",
        "9007199254740992.0", "123456789012345678.0", "8.41e21", "1e23", "6.02214076e23", "1.0000000000000002", "0.1", "3.141592653589793238462643383279",
        "1_0.2_5e+1_0", "00012.5000", "1e0", "1E-0",
    ] {
        let c: String = t.chars().filter(|c| *c != '_').collect();
        for minus in ["", "-", "- "] {
            for pos in POSITIONS {
                v.push(format!("L|{pos}|float|{minus}|{t}|{c}"));
            }
            v.push(format!("L|init|ifloat|{minus}|{t}im|{c}"));
        }
        v.push(format!("L|init|tfloat||{t}ns|{c}|ns"));
    }
    for b in ["true", "false"] {
        for pos in ["init", "assign"] {
            v.push(format!("L|{pos}|bool||{b}|{b}"));
        }
    }
    v
}

fn boundary() -> &'static Vec<String> {
    static B: std::sync::OnceLock<Vec<String>> = std::sync::OnceLock::new();
    B.get_or_init(boundary_cases)
}

impl Property for C10 {
    fn id(&self) -> &'static str {
        "C10"
    }
    fn rule(&self) -> &'static str {
        "The generator picks the mathematical value first and then spells it. Streams: (1) boundary table: 31 integer values at the edges of every width x 4 radices x prefix/digit case x 4 underscore placements x {none, attached minus, spaced minus} x 3 positions (initialiser, assignment right-hand side, gate argument), the same decimals with the 6 units and im; the full product of float shapes (integer part x fraction x exponent marker/sign, incl. overflow/underflow exponents) x minus x positions x units x im; booleans; (2) every bit string of length 1..=16 (exhaustive) and random ones to 256 bits with underscores; (3) random literals (integers log-uniform in [0,2^128)). Monitor: the literal found in the semantic graph (implicit casts stripped) must have exactly the expected class, value, sign, unit, bit width; IntNumber::value/FloatNumber::value/BitString::value of the AST must agree. Programs the parser rejects or whose analysis panics are inconclusive. Non-trivial: all. Distinct: hash of the source."
    }
    fn streams(&self, tier: Tier, seed: u64) -> Vec<Stream> {
        let nb = boundary().len() as u64;
        vec![
            Stream::new("boundary-table", nb, true, |i| boundary()[i as usize].clone()),
            Stream::new("all-bit-strings-up-to-16", (1u64 << 17) - 2, true, |i| {
                // i+2 in binary: leading 1 marks the length
                let x = i + 2;
                let len = 63 - x.leading_zeros() as usize;
                let bits: String = (0..len).rev().map(|k| if (x >> k) & 1 == 1 { '1' } else { '0' }).collect();
                format!("L|init|bits||\"{bits}\"|{bits}")
            }),
            Stream::new("all-single-quoted-bit-strings-up-to-10", (1u64 << 11) - 2, true, |i| {
                let x = i + 2;
                let len = 63 - x.leading_zeros() as usize;
                let bits: String = (0..len).rev().map(|k| if (x >> k) & 1 == 1 { '1' } else { '0' }).collect();
                format!("L|init|bits||'{bits}'|{bits}")
            }),
            Stream::new("random-literals", tier.pick(60_000, 3_000_000), false, move |i| {
                let mut r = Rng::new(mix(&[seed, 0xC10, i]));
                random_case(&mut r)
            }),
        ]
    }
    fn check(&self, input: &str, obs: &mut Obs) {
        if input.starts_with("L|") {
            check_case(input, obs);
            return;
        }
        obs.inconclusive("unrecognised input spec");
    }
    fn mandatory_classes(&self, _tier: Tier) -> Vec<&'static str> {
        vec!["class:int", "class:float", "class:bits", "class:tint", "class:tfloat", "class:iint", "class:ifloat", "class:bool", "negated-literal"]
    }
}

//! C02 — the syntax tree is lossless: its leaves spell the input byte-for-byte.

use super::c01;
use super::common::{self, walk_tree};
use crate::worker::{guard, Obs, Property, Stream, Tier};
use oq3_syntax::{SourceFile, SyntaxKind};

pub struct C02;

pub fn check_string(s: &str, obs: &mut Obs) {
    obs.fp.u64(0xC02);
    let mut shapes: Vec<u64> = Vec::new();
    let mut lex_clean = true;
    let mut nontrivial = false;
    for entry in ["parse", "parse_check_lex"] {
        let r = guard(|| {
            let root = if entry == "parse" {
                SourceFile::parse(s).syntax_node()
            } else {
                let p = SourceFile::parse_check_lex(s);
                if !p.have_parse() {
                    return None;
                }
                p.syntax_node()
            };
            let facts = walk_tree(&root, s);
            let text_ok = root.text() == s;
            let range = root.text_range();
            let (a, b): (usize, usize) = (range.start().into(), range.end().into());
            Some((root.kind(), facts, text_ok, a, b))
        });
        match r {
            Err(p) => {
                // parsing (or walking the tree it returned) panicked: C01's business
                obs.inconclusive(format!("panic in {entry}: {}", p.site()));
                return;
            }
            Ok(None) => {
                lex_clean = false;
            }
            Ok(Some((kind, facts, text_ok, a, b))) => {
                if kind != SyntaxKind::SOURCE_FILE {
                    obs.violate(format!("root-kind/{kind:?}/{entry}"), format!("{s:?}: root is {kind:?}"));
                }
                if !text_ok {
                    obs.violate(format!("root-text-differs/SOURCE_FILE/{entry}"), format!("{s:?}"));
                }
                if a != 0 || b != s.len() {
                    obs.violate(format!("root-range/SOURCE_FILE/{entry}"), format!("{s:?}: root spans {a}..{b}, input has {} bytes", s.len()));
                }
                if let Some((clause, kind, d)) = &facts.problem {
                    obs.violate(format!("{clause}/{kind}/{entry}"), format!("{s:?}: {d}"));
                } else if !facts.leaves_spell_input {
                    obs.violate(format!("leaves-differ/?/{entry}"), format!("{s:?}"));
                }
                obs.fp.u64(facts.shape);
                shapes.push(facts.shape);
                obs.maximum("max_tree_depth", facts.max_depth as u64);
                if facts.tokens >= 3 {
                    nontrivial = true;
                }
                if facts.error_nodes + facts.error_tokens > 0 {
                    obs.class("tree-with-error-nodes");
                }
                if entry == "parse" {
                    obs.count_n("tree-nodes-walked", facts.nodes as u64);
                    obs.count_n("tree-tokens-walked", facts.tokens as u64);
                }
            }
        }
    }
    if lex_clean && shapes.len() == 2 && shapes[0] != shapes[1] {
        obs.violate("entry-points-disagree/SOURCE_FILE/both", format!("{s:?}: trees of parse and parse_check_lex differ"));
    }
    if !lex_clean {
        obs.class("lexical-error-input");
    }
    obs.done(nontrivial);
}

impl Property for C02 {
    fn id(&self) -> &'static str {
        "C02"
    }
    fn rule(&self) -> &'static str {
        "Every source string of the shared string streams (every prefix of every seed program, mutated programs, token soups, hostile UTF-8, nesting bombs) plus the bounded-exhaustive token sequences of length <= 3 over the 92-symbol alphabet in three layouts (glued layout exercises composite operators and float/dot jointness) is parsed through both entry points; a recursive walker checks root kind, root text and range, that every node's children tile it, that no token is empty and that the leaves in document order spell the input; with no lexical error both entry points must give the same tree. One evaluation = one string. Non-trivial: tree with >= 3 leaf tokens. Distinct: hash of the pre-order (kind, length) sequence of the tree."
    }
    fn streams(&self, tier: Tier, seed: u64) -> Vec<Stream> {
        let n = c01::full_alphabet().len() as u64;
        let mut v = Vec::new();
        let maxlen = tier.pick(2u32, 3u32);
        for len in 0..=maxlen {
            let blocks = if len <= 2 { 1 } else { n.pow(len - 2) };
            v.push(Stream::new(&format!("token-sequences-len{len}"), blocks, true, move |i| format!("seq:F:{len}:{i}")));
        }
        v.extend(common::string_streams(0xC02, tier, seed, tier.pick(1.0, 0.5)));
        v
    }
    fn check(&self, input: &str, obs: &mut Obs) {
        if let Some(s) = input.strip_prefix("s:") {
            check_string(s, obs);
            obs.note = format!("{} bytes: leaves spell the input, children tile parents", s.len());
            return;
        }
        if let Some(rest) = input.strip_prefix("seq:") {
            let parts: Vec<&str> = rest.split(':').collect();
            let al = c01::full_alphabet();
            let len: usize = parts[1].parse().unwrap();
            let mut idx: u64 = parts[2].parse().unwrap();
            let n = al.len() as u64;
            let fixed = len.saturating_sub(2);
            let mut seq: Vec<&str> = Vec::new();
            for _ in 0..fixed {
                seq.push(&al[(idx % n) as usize]);
                idx /= n;
            }
            let free = len - fixed;
            let total = n.pow(free as u32);
            let mut s = String::new();
            let mut count = 0;
            for k in 0..total {
                seq.truncate(fixed);
                let mut kk = k;
                for _ in 0..free {
                    seq.push(&al[(kk % n) as usize]);
                    kk /= n;
                }
                for layout in 0..c01::LAYOUTS {
                    c01::render(&seq, layout, &mut s);
                    check_string(&s, obs);
                    count += 1;
                }
                if obs.violations.len() > 40 || obs.inconclusive.is_some() {
                    break;
                }
            }
            obs.note = format!("block of {count} renderings, e.g. {s:?}");
            return;
        }
        obs.inconclusive("unrecognised input spec");
    }
    fn mandatory_classes(&self, _tier: Tier) -> Vec<&'static str> {
        vec!["tree-with-error-nodes", "lexical-error-input"]
    }
}

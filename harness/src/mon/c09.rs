//! C09 — declared symbols carry exactly the declared type.

use super::semcommon::*;
use crate::model_resolve::STDGATES;
use crate::rng::{mix, Rng};
use crate::worker::{guard, Obs, Property, Stream, Tier};
use oq3_semantics::symbols::{SymbolTable, SymbolType};
use oq3_semantics::types::{ArrayDims, IsConst, SubroutineDef, Type};

pub struct C09;

const BASES: &[&str] = &["int", "uint", "float", "angle", "bit", "complex", "bool", "duration", "stretch", "qubit"];
/// how the declaration is written
const FORMS: &[&str] = &["decl", "decl-init", "const-decl", "io-input", "io-output", "def-param", "for-var", "cast-target"];
/// where it is written
const CONTEXTS: &[&str] = &["global", "gate-body", "def-body", "if-body", "else-body", "while-body", "for-body", "case-body", "default-body"];
/// how the width is written
const WFORMS: &[&str] = &[
    "none", "dec", "hex", "bin", "oct", "underscore", "const-int", "const-int64", "const-int128", "const-uint", "const-int32", "const-expr", "nonconst-ident", "undeclared-ident",
    "const-float", "sibling-param",
];
const WIDTHS: &[i128] = &[1, 2, 7, 8, 31, 32, 63, 64, 128, 65536, 1 << 31, (1 << 32) - 1, 1 << 32, (1 << 32) + 1, 1 << 33, 0, -1, -5, -(1 << 32)];

fn c(b: bool) -> IsConst {
    if b {
        IsConst::True
    } else {
        IsConst::False
    }
}

fn takes_width(base: &str) -> bool {
    matches!(base, "int" | "uint" | "float" | "angle" | "bit" | "complex" | "qubit")
}

fn expected_type(base: &str, width: Option<u32>, is_const: bool) -> Type {
    match (base, width) {
        ("int", w) => Type::Int(w, c(is_const)),
        ("uint", w) => Type::UInt(w, c(is_const)),
        ("float", w) => Type::Float(w, c(is_const)),
        ("angle", w) => Type::Angle(w, c(is_const)),
        ("complex", w) => Type::Complex(w, c(is_const)),
        ("bit", None) => Type::Bit(c(is_const)),
        ("bit", Some(w)) => Type::BitArray(ArrayDims::D1(w as usize), c(is_const)),
        ("bool", _) => Type::Bool(c(is_const)),
        ("duration", _) => Type::Duration(c(is_const)),
        ("stretch", _) => Type::Stretch(c(is_const)),
        ("qubit", None) => Type::Qubit,
        ("qubit", Some(w)) => Type::QubitArray(ArrayDims::D1(w as usize)),
        _ => Type::Undefined,
    }
}

fn type_text(base: &str, des: Option<&str>) -> String {
    match (base, des) {
        ("complex", Some(d)) => format!("complex[float[{d}]]"),
        (b, Some(d)) => format!("{b}[{d}]"),
        (b, None) => b.to_string(),
    }
}

fn find_symbol<'a>(t: &'a SymbolTable, name: &str) -> Option<&'a Type> {
    let mut found = None;
    for i in 0..t.verif_num_symbols() {
        let s = &t[&t.verif_symbol_id(i)];
        if s.name() == name {
            found = Some(s.symbol_type());
        }
    }
    found
}

fn wrap(ctx: &str, inner: &str) -> String {
    match ctx {
        "global" => inner.to_string(),
        "gate-body" => format!("gate gg qa {{ {inner} }}"),
        "def-body" => format!("def ff() {{ {inner} }}"),
        "if-body" => format!("if (true) {{ {inner} }}"),
        // the then-branch declares the same name with another type: the two branches are two scopes
        "else-body" => format!("if (true) {{ bool sym_under_test = true; }} else {{ {inner} }}"),
        "while-body" => format!("while (true) {{ {inner} }}"),
        "for-body" => format!("for int i0 in [0:1] {{ {inner} }}"),
        "case-body" => format!("switch (1) {{ case 1 {{ {inner} }} }}"),
        _ => format!("switch (1) {{ default {{ {inner} }} }}"),
    }
}

fn check_decl(spec: &str, obs: &mut Obs) {
    let p: Vec<&str> = spec.split('|').collect();
    if p.len() < 6 {
        obs.inconclusive("bad spec");
        return;
    }
    let (form, ctx, base, wform) = (p[1], p[2], p[3], p[4]);
    let w: i128 = p[5].parse().unwrap_or(8);
    if wform != "none" && !takes_width(base) {
        obs.done(false);
        return;
    }
    if base == "qubit" && !matches!(form, "decl" | "def-param") {
        obs.done(false);
        return;
    }
    if base == "stretch" && form == "cast-target" {
        obs.done(false);
        return;
    }
    // how the designator is written, and the preamble it needs
    let mut pre = String::new();
    let absw = w.unsigned_abs();
    let lit = |radix: u32| -> String {
        match radix {
            16 => format!("0x{absw:X}"),
            2 => format!("0b{absw:b}"),
            8 => format!("0o{absw:o}"),
            _ => absw.to_string(),
        }
    };
    let signed = |s: String| if w < 0 { format!("-{s}") } else { s };
    let des: Option<String> = match wform {
        "none" => None,
        "dec" => Some(signed(lit(10))),
        "hex" => Some(signed(lit(16))),
        "bin" => Some(signed(lit(2))),
        "oct" => Some(signed(lit(8))),
        "underscore" => {
            let s = absw.to_string();
            Some(signed(if s.len() > 1 { format!("{}_{}", &s[..1], &s[1..]) } else { format!("{s}_") }))
        }
        "const-int" => {
            pre = format!("const int nw = {w};\n");
            Some("nw".into())
        }
        "const-int32" => {
            pre = format!("const int[32] nw = {w};\n");
            Some("nw".into())
        }
        "const-int64" => {
            pre = format!("const int[64] nw = {w};\n");
            Some("nw".into())
        }
        "const-int128" => {
            pre = format!("const int[128] nw = {w};\n");
            Some("nw".into())
        }
        "const-uint" => {
            pre = format!("const uint nw = {w};\n");
            Some("nw".into())
        }
        "const-expr" => {
            pre = format!("const int nw = {w} + 0;\n");
            Some("nw".into())
        }
        "const-float" => {
            pre = format!("const float nw = {w}.0;\n");
            Some("nw".into())
        }
        "nonconst-ident" => {
            pre = format!("int nw = {w};\n");
            Some("nw".into())
        }
        // `def ff2(int nw, T[nw] x)` next to a global `const int nw`: the designator means the parameter
        // (the innermost declaration that precedes it), which is not a constant
        "sibling-param" => {
            if form != "def-param" {
                obs.done(false);
                return;
            }
            pre = format!("const int nw = {w};\n");
            Some("nw".into())
        }
        _ => Some("never_declared".into()),
    };
    // literal negative designators are prefix expressions (a recorded C03 panic site)
    let literal_form = matches!(wform, "dec" | "hex" | "bin" | "oct" | "underscore");
    let ty = type_text(base, des.as_deref());
    let name = "sym_under_test";
    let (stmt, is_const) = match form {
        "decl" => (format!("{ty} {name};"), false),
        "decl-init" => (format!("{ty} {name} = {};", if base == "bool" { "true" } else if base == "duration" || base == "stretch" { "1ns" } else if base == "bit" { "\"1\"" } else { "1" }), false),
        "const-decl" => (format!("const {ty} {name} = {};", if base == "bool" { "true" } else if base == "duration" || base == "stretch" { "1ns" } else if base == "bit" { "\"1\"" } else { "1" }), true),
        "io-input" => (format!("input {ty} {name};"), false),
        "io-output" => (format!("output {ty} {name};"), false),
        "def-param" if wform == "sibling-param" => (format!("def ff2(int nw, {ty} {name}) {{ }}"), false),
        "def-param" => (format!("def ff2({ty} {name}) {{ }}"), false),
        "for-var" => (format!("for {ty} {name} in [0:1] {{ }}"), false),
        _ => (format!("int other = 1; {ty}(other);"), false),
    };
    // definitions, io and qubit declarations only make sense at the global scope
    let ctx = if matches!(form, "def-param" | "io-input" | "io-output") || base == "qubit" { "global" } else { ctx };
    // one declaration in four below the global scope reuses the name of a gate defined globally:
    // an inner scope may shadow any global name, the symbol under test is the later one
    let inner_scope = ctx != "global" || matches!(form, "def-param" | "for-var");
    if inner_scope && form != "cast-target" && mix(&[w as u64, form.len() as u64, ctx.len() as u64 * 7 + base.len() as u64, wform.len() as u64]) % 4 == 0 {
        pre.push_str(&format!("gate {name} qshadow {{ }}\n"));
        obs.class("shadows-a-global-gate-name");
    }
    let src = format!("{pre}{}", wrap(ctx, &stmt));
    obs.fp.str(&src);
    let wclass = if wform == "none" {
        "none"
    } else if w < 0 {
        "negative"
    } else if w == 0 {
        "zero"
    } else if w > u32::MAX as i128 {
        "too-large"
    } else {
        "fits"
    };
    let cell = |clause: &str| format!("{form}/{base}/{wclass}/{wform}/{clause}");
    let res = match analyse_text(&src) {
        Ok(r) => r,
        Err(AErr::Rejected(m)) => {
            obs.inconclusive(format!("rejected by the parser: {m}"));
            return;
        }
        Err(AErr::Panic(site, _)) => {
            obs.count(&format!("analysis-panicked:{wform}:{wclass}"));
            obs.inconclusive(format!("analysis panicked (C03): {site}"));
            return;
        }
    };
    let r = guard(|| {
        let kinds: Vec<String> = res.semantic_errors().iter().map(diag_kind).collect();
        let ty = if form == "cast-target" { None } else { find_symbol(res.symbol_table(), name).cloned() };
        (kinds, ty)
    });
    let (kinds, ty_seen) = match r {
        Ok(x) => x,
        Err(p) => {
            obs.inconclusive(format!("monitor panicked {}", p.site()));
            return;
        }
    };
    let designator_diag = kinds.iter().any(|k| matches!(k.as_str(), "InvalidDesignatorError" | "ConstIntegerError" | "UndefVarError"));
    let valid_width = wform == "none" || (w >= 1 && w <= u32::MAX as i128 && !matches!(wform, "nonconst-ident" | "undeclared-ident" | "const-float" | "sibling-param"));
    let _ = literal_form;
    if !valid_width && wform != "none" && !(w == 0 && !matches!(wform, "nonconst-ident" | "undeclared-ident" | "const-float" | "sibling-param")) {
        // a width that does not fit, is negative or is not a constant integer must be diagnosed
        if !designator_diag {
            obs.violate(cell("invalid-width-not-diagnosed"), format!("{src:?}: diagnostics {kinds:?}, symbol type {ty_seen:?}"));
        }
        obs.class("invalid-width");
    } else if form != "cast-target" {
        let width = if wform == "none" { None } else { Some(w as u32) };
        let want = expected_type(base, width, is_const);
        match &ty_seen {
            None => obs.violate(cell("symbol-missing"), format!("{src:?}: no symbol named {name}")),
            Some(t) if *t == want => {}
            Some(t) => {
                // a valid width may be rejected with a designator diagnostic (not demanded), but
                // never recorded as another type silently
                // (only the two spellings for which the analyser records no constant value today -
                // a const initialised by an expression or by a literal of exactly its own type - may
                // be rejected with a designator diagnostic; every other valid width must be recorded)
                if !designator_diag {
                    obs.violate(cell("recorded-type-differs"), format!("{src:?}: symbol type {t:?}, declared {want:?}, diagnostics {kinds:?}"));
                } else if !matches!(wform, "const-expr" | "const-int128") {
                    obs.violate(cell("valid-width-rejected"), format!("{src:?}: symbol type {t:?}, declared {want:?}, diagnostics {kinds:?}"));
                } else {
                    obs.count("valid-width-rejected-with-diagnostic(not demanded)");
                    obs.count(&format!("rejected:{form}/{base}/{wform}/{}", if w == 0 { "0".to_string() } else if w > 128 { ">128".to_string() } else { "1..128".to_string() }));
                }
            }
        }
        obs.class("valid-declaration");
    }
    obs.note = format!("{src:?} -> {ty_seen:?} {kinds:?}");
    obs.done(true);
}

/// names for the first user gate: look-alikes of the built-in `U`, of keywords and of library gates
const USER_GATE_NAMES: &[&str] = &["user_gate", "u", "uu", "Ux", "cU", "u0", "gphase2", "inv2", "gate1", "xx", "π_gate", "_g"];

fn check_gate_sig(np: usize, nq: usize, with_std: bool, obs: &mut Obs) {
    let ps: Vec<String> = (0..np).map(|i| format!("p{i}")).collect();
    let qs: Vec<String> = (0..nq).map(|i| format!("q{i}")).collect();
    let gname = USER_GATE_NAMES[(np * 7 + nq * 3 + with_std as usize) % USER_GATE_NAMES.len()];
    let mut src = String::new();
    if with_std {
        src.push_str("include \"stdgates.inc\";\n");
    }
    let plist = if np == 0 { String::new() } else { format!("({})", ps.join(", ")) };
    src.push_str(&format!("gate {gname}{plist} {} {{ }}\n", qs.join(", ")));
    src.push_str(&format!("gate second{plist} {} {{ {gname}{} {}; }}\n", qs.join(", "), if np == 0 { String::new() } else { format!("({})", ps.join(", ")) }, qs.join(", ")));
    obs.fp.str(&src);
    let res = match analyse_text(&src) {
        Ok(r) => r,
        Err(_) => {
            obs.inconclusive("analysis failed");
            return;
        }
    };
    let cell = |clause: &str| format!("gate-signature/{np}x{nq}/{}/{clause}", if with_std { "stdlib" } else { "no-stdlib" });
    let r = guard(|| {
        let t = res.symbol_table();
        let mut problems: Vec<(String, String)> = Vec::new();
        match find_symbol(t, gname) {
            Some(Type::Gate(a, b)) if *a == np && *b == nq => {}
            other => problems.push(("gate-arity".into(), format!("{gname}: {other:?}, declared ({np}, {nq})"))),
        }
        for p in &ps {
            match find_symbol(t, p) {
                Some(Type::Angle(None, IsConst::True)) => {}
                other => problems.push(("gate-parameter-type".into(), format!("{p}: {other:?}"))),
            }
        }
        for q in &qs {
            match find_symbol(t, q) {
                Some(Type::Qubit) => {}
                other => problems.push(("gate-qubit-type".into(), format!("{q}: {other:?}"))),
            }
        }
        // the gate listing: exactly the user-defined and standard-library gates with their arities
        let mut listed: Vec<(String, usize, usize)> = t.gates().map(|(n, _, a, b)| (n.to_string(), a, b)).collect();
        listed.sort();
        let mut want: Vec<(String, usize, usize)> = vec![(gname.to_string(), np, nq), ("second".into(), np, nq)];
        if with_std {
            want.extend(STDGATES.iter().map(|(n, a, b)| (n.to_string(), *a, *b)));
        }
        want.sort();
        if listed != want {
            let extra: Vec<_> = listed.iter().filter(|x| !want.contains(x)).collect();
            let missing: Vec<_> = want.iter().filter(|x| !listed.contains(x)).collect();
            problems.push(("gates-listing".into(), format!("unexpected {extra:?}, missing {missing:?}")));
        }
        problems
    });
    match r {
        Ok(problems) => {
            for (c, d) in problems {
                obs.violate(cell(&c), format!("{src:?}: {d}"));
            }
        }
        Err(p) => obs.inconclusive(format!("monitor panicked {}", p.site())),
    }
    obs.class("gate-signature");
    obs.done(true);
}

/// A user gate with the name of a standard-library gate (same or different arity), declared
/// before `include "stdgates.inc";`: the first declaration stays, the include reports exactly one
/// redeclaration, and every other library gate is present.
fn check_gate_collision(name_ix: usize, np: usize, nq: usize, obs: &mut Obs) {
    let (name, sa, sb) = STDGATES[name_ix % STDGATES.len()];
    let ps: Vec<String> = (0..np).map(|i| format!("p{i}")).collect();
    let qs: Vec<String> = (0..nq).map(|i| format!("q{i}")).collect();
    let plist = if np == 0 { String::new() } else { format!("({})", ps.join(", ")) };
    let src = format!("gate {name}{plist} {} {{ }}\ninclude \"stdgates.inc\";\n", qs.join(", "));
    obs.fp.str(&src);
    let res = match analyse_text(&src) {
        Ok(r) => r,
        Err(_) => {
            obs.inconclusive("analysis failed");
            return;
        }
    };
    let same = if (sa, sb) == (np, nq) { "same-arity" } else { "other-arity" };
    let cell = |clause: &str| format!("gate-collision/{same}/{clause}");
    let r = guard(|| {
        let t = res.symbol_table();
        let mut problems: Vec<(String, String)> = Vec::new();
        let mut listed: Vec<(String, usize, usize)> = t.gates().map(|(n, _, a, b)| (n.to_string(), a, b)).collect();
        listed.sort();
        let mut want: Vec<(String, usize, usize)> = STDGATES.iter().filter(|g| g.0 != name).map(|(n, a, b)| (n.to_string(), *a, *b)).collect();
        want.push((name.to_string(), np, nq));
        want.sort();
        if listed != want {
            let extra: Vec<_> = listed.iter().filter(|x| !want.contains(x)).collect();
            let missing: Vec<_> = want.iter().filter(|x| !listed.contains(x)).collect();
            problems.push(("gates-listing".into(), format!("unexpected {extra:?}, missing {missing:?}")));
        }
        let redecl = res.semantic_errors().iter().filter(|e| diag_kind(e) == "RedeclarationError").count();
        if redecl != 1 {
            problems.push(("redeclaration-count".into(), format!("{redecl} RedeclarationError diagnostics, expected exactly 1")));
        }
        problems
    });
    match r {
        Ok(problems) => {
            for (c, d) in problems {
                obs.violate(cell(&c), format!("{src:?}: {d}"));
            }
        }
        Err(p) => obs.inconclusive(format!("monitor panicked {}", p.site())),
    }
    obs.class("gate-signature");
    obs.done(true);
}

/// A user's include file whose name merely ends in (or contains) `stdgates.inc` is an ordinary file: its
/// gates are recorded with their arities, the library is not provided in its place, and the declarations
/// of a file included after it are recorded as well.  `UF|<name index>|<n params>|<n qubits>`
const LIBRARY_LOOKALIKE_FILES: &[&str] = &["my_stdgates.inc", "xstdgates.inc", "sub/stdgates.inc", "stdgates.inc.qasm", "STDGATES.INC", "stdgates_inc"];

fn check_user_file_named_like_library(k: usize, np: usize, nq: usize, obs: &mut Obs) {
    use oq3_semantics::syntax_to_semantics::parse_source_string_with_path_search;
    let fname = LIBRARY_LOOKALIKE_FILES[k % LIBRARY_LOOKALIKE_FILES.len()];
    let dir = scratch_dir("c09");
    if let Some(parent) = std::path::Path::new(fname).parent() {
        let _ = std::fs::create_dir_all(dir.join(parent));
    }
    let ps: Vec<String> = (0..np).map(|i| format!("p{i}")).collect();
    let qs: Vec<String> = (0..nq).map(|i| format!("q{i}")).collect();
    let plist = if np == 0 { String::new() } else { format!("({})", ps.join(", ")) };
    let _ = std::fs::write(dir.join(fname), format!("gate from_file{plist} {} {{ }}\n", qs.join(", ")));
    let _ = std::fs::write(dir.join("second.inc"), "const int from_second = 16;\n");
    let src = format!("include \"{fname}\";\ninclude \"second.inc\";\nint[from_second] sym_under_test;\ngate after_them a {{ }}\n");
    obs.fp.str(&src);
    obs.fp.u64((np * 8 + nq) as u64);
    let d2 = dir.clone();
    let s2 = src.clone();
    let r = guard(move || {
        let res = parse_source_string_with_path_search(&s2, Some("main.qasm"), Some(&[d2]));
        let t = res.symbol_table();
        let mut listed: Vec<(String, usize, usize)> = t.gates().map(|(n, _, a, b)| (n.to_string(), a, b)).collect();
        listed.sort();
        let mut kinds: Vec<String> = res.semantic_errors().iter().map(diag_kind).collect();
        for inc in res.semantic_errors().include_errors() {
            kinds.extend(inc.iter().map(diag_kind));
        }
        (listed, find_symbol(t, "sym_under_test").cloned(), kinds, res.any_syntax_errors())
    });
    let _ = std::fs::remove_dir_all(&dir);
    let cell = |clause: &str| format!("include-named-like-library/{fname}/{clause}");
    match r {
        Err(p) => obs.inconclusive(format!("analysis panicked (C03): {}", p.site())),
        Ok((_, _, _, true)) => obs.inconclusive("rejected by the parser"),
        Ok((listed, ty, kinds, _)) => {
            let mut want = vec![("after_them".to_string(), 0usize, 1usize), ("from_file".to_string(), np, nq)];
            want.sort();
            if listed != want {
                obs.violate(cell("gates-listing"), format!("{src:?} (the file defines `gate from_file{plist} {}`): gates() = {listed:?}, diagnostics {kinds:?}", qs.join(", ")));
            }
            if ty != Some(Type::Int(Some(16), IsConst::False)) {
                obs.violate(cell("declaration-after-the-includes"), format!("{src:?}: sym_under_test recorded as {ty:?}, diagnostics {kinds:?}"));
            }
            obs.class("gate-signature");
            obs.done(true);
        }
    }
}

/// The recorded arity is the number of parameters written, also when a name is written twice (which
/// is diagnosed as a redeclaration).  `GD|<n params>|<n qubits>|<dup: p|q|d>`
fn check_dup_params(np: usize, nq: usize, dup: &str, obs: &mut Obs) {
    let mut ps: Vec<String> = (0..np).map(|i| format!("p{i}")).collect();
    let mut qs: Vec<String> = (0..nq).map(|i| format!("q{i}")).collect();
    let src = match dup {
        "p" if np >= 2 => {
            ps[np - 1] = ps[0].clone();
            format!("gate dupg({}) {} {{ }}\n", ps.join(", "), qs.join(", "))
        }
        "q" if nq >= 2 => {
            qs[nq - 1] = qs[0].clone();
            format!("gate dupg{} {} {{ }}\n", if np == 0 { String::new() } else { format!("({})", ps.join(", ")) }, qs.join(", "))
        }
        "d" if np >= 2 => {
            let params: Vec<String> = (0..np).map(|i| format!("int[8] {}", if i == np - 1 { "a0".to_string() } else { format!("a{i}") })).collect();
            format!("def dupd({}) {{ }}\n", params.join(", "))
        }
        _ => {
            obs.done(false);
            return;
        }
    };
    obs.fp.str(&src);
    let res = match analyse_text(&src) {
        Ok(r) => r,
        Err(_) => {
            obs.inconclusive("analysis failed");
            return;
        }
    };
    let r = guard(|| {
        let t = res.symbol_table();
        let mut problems: Vec<(String, String)> = Vec::new();
        if dup == "d" {
            match find_symbol(t, "dupd") {
                Some(Type::SubroutineDef(SubroutineDef { num_params, .. })) if *num_params == np => {}
                other => problems.push(("def-param-count".into(), format!("{other:?}, {np} parameters written"))),
            }
        } else {
            match find_symbol(t, "dupg") {
                Some(Type::Gate(a, b)) if *a == np && *b == nq => {}
                other => problems.push(("gate-arity".into(), format!("{other:?}, ({np}, {nq}) written"))),
            }
            let listed: Vec<(String, usize, usize)> = t.gates().map(|(n, _, a, b)| (n.to_string(), a, b)).collect();
            if listed != vec![("dupg".to_string(), np, nq)] {
                problems.push(("gates-listing".into(), format!("{listed:?}")));
            }
        }
        let redecl = res.semantic_errors().iter().filter(|e| diag_kind(e) == "RedeclarationError").count();
        if redecl != 1 {
            problems.push(("redeclaration-count".into(), format!("{redecl} RedeclarationError diagnostics, expected exactly 1")));
        }
        problems
    });
    match r {
        Ok(problems) => {
            for (c, d) in problems {
                obs.violate(format!("repeated-parameter-name/{dup}/{c}"), format!("{src:?}: {d}"));
            }
        }
        Err(p) => obs.inconclusive(format!("monitor panicked {}", p.site())),
    }
    obs.class("gate-signature");
    obs.done(true);
}

/// A designator identifier resolves like any other use: to the innermost visible declaration, also
/// two scopes below it and also when the global scope has a const of the same name.
/// `NS|<base>|<global width>|<inner width or "nonconst">|<scope pair>`
fn check_nested_designator(spec: &str, obs: &mut Obs) {
    let p: Vec<&str> = spec.split('|').collect();
    let (base, wg, wi, pair) = (p[0], p[1], p[2], p[3]);
    let inner_decl = if wi == "nonconst" { "uint nshadow = 8;".to_string() } else { format!("const uint nshadow = {wi};") };
    let use_stmt = format!("{}[nshadow] sym_under_test;", base);
    let body = match pair {
        "def>if" => format!("def holder() {{ {inner_decl} if (true) {{ {use_stmt} }} }}"),
        "def>while>if" => format!("def holder() {{ {inner_decl} while (true) {{ if (true) {{ {use_stmt} }} }} }}"),
        "if>for" => format!("if (true) {{ {inner_decl} for int lv in [0:1] {{ {use_stmt} }} }}"),
        "for-var>if" => format!("for uint nshadow in [0:3] {{ if (true) {{ {use_stmt} }} }}"),
        _ => format!("if (true) {{ {inner_decl} if (true) {{ {use_stmt} }} }}"),
    };
    let src = format!("const uint nshadow = {wg};\n{body}\n");
    obs.fp.str(&src);
    let res = match analyse_text(&src) {
        Ok(r) => r,
        Err(_) => {
            obs.inconclusive("analysis failed");
            return;
        }
    };
    let nonconst = wi == "nonconst" || pair == "for-var>if";
    let cell = |clause: &str| format!("nested-designator/{base}/{pair}/{}/{clause}", if nonconst { "nonconst-shadow" } else { "const-shadow" });
    let r = guard(|| {
        let kinds: Vec<String> = res.semantic_errors().iter().map(diag_kind).collect();
        (kinds, find_symbol(res.symbol_table(), "sym_under_test").cloned())
    });
    match r {
        Err(p) => obs.inconclusive(format!("monitor panicked {}", p.site())),
        Ok((kinds, ty)) => {
            let diag = kinds.iter().any(|k| matches!(k.as_str(), "InvalidDesignatorError" | "ConstIntegerError"));
            if nonconst {
                // the innermost visible declaration is not a constant: must be diagnosed, and the
                // global constant's value must not be recorded instead
                if !diag {
                    obs.violate(cell("nonconst-designator-not-diagnosed"), format!("{src:?}: diagnostics {kinds:?}, recorded {ty:?}"));
                }
            } else {
                let want = expected_type(base, wi.parse::<u32>().ok(), false);
                match ty {
                    Some(t) if t == want => {}
                    other => obs.violate(cell("recorded-type-differs"), format!("{src:?}: recorded {other:?}, the innermost visible `nshadow` gives {want:?}; diagnostics {kinds:?}")),
                }
            }
            obs.class("valid-declaration");
            obs.done(true);
        }
    }
}

fn check_def_sig(seed: u64, obs: &mut Obs) {
    let mut r = Rng::new(seed);
    let np = r.below(5) as usize;
    let scal = ["int", "uint", "float", "angle", "bit", "complex", "bool", "duration"];
    let mut params: Vec<(String, Type, String)> = Vec::new();
    for i in 0..np {
        if r.chance(1, 4) {
            let w = if r.bool() { Some(*r.pick(&[1u32, 2, 5])) } else { None };
            let t = match w {
                Some(w) => format!("qubit[{w}]"),
                None => "qubit".to_string(),
            };
            params.push((t, expected_type("qubit", w, false), format!("a{i}")));
        } else {
            let b = *r.pick(&scal);
            let w = if takes_width(b) && r.bool() { Some(*r.pick(&[1u32, 8, 32, 64])) } else { None };
            let ws = w.map(|x| x.to_string());
            params.push((type_text(b, ws.as_deref()), expected_type(b, w, false), format!("a{i}")));
        }
    }
    let ret = if r.bool() {
        let b = *r.pick(&scal);
        let w = if takes_width(b) && r.bool() { Some(*r.pick(&[8u32, 32, 64])) } else { None };
        let ws = w.map(|x| x.to_string());
        Some((type_text(b, ws.as_deref()), b, w))
    } else {
        None
    };
    // widths may be written as global const identifiers; the body may declare the same names again
    // (with other values, or non-const): the signature is resolved where it is written
    let mut preamble = String::new();
    let mut body = String::new();
    let mut ret_text = ret.as_ref().map(|r| r.0.clone());
    let via_const = r.chance(1, 2);
    if via_const {
        let mut k = 0;
        let mut constify = |t: &str, preamble: &mut String, body: &mut String, r: &mut Rng| -> String {
            // `int[32]` -> `int[wk]` with `const uint wk = 32;`
            if let (Some(a), Some(b)) = (t.find('['), t.rfind(']')) {
                let inner = &t[a + 1..b];
                if inner.chars().all(|c| c.is_ascii_digit()) && !t.starts_with("complex") {
                    let name = format!("wdt{k}");
                    k += 1;
                    preamble.push_str(&format!("const uint {name} = {inner};\n"));
                    match r.below(3) {
                        0 => body.push_str(&format!("const uint {name} = {};\n", inner.parse::<u64>().unwrap_or(1) + 8)),
                        1 => body.push_str(&format!("int {name};\n")),
                        _ => {}
                    }
                    return format!("{}[{name}]", &t[..a]);
                }
            }
            t.to_string()
        };
        for p in params.iter_mut() {
            if !p.0.starts_with("qubit") {
                p.0 = constify(&p.0.clone(), &mut preamble, &mut body, &mut r);
            }
        }
        if let Some(t) = &ret_text {
            ret_text = Some(constify(t, &mut preamble, &mut body, &mut r));
        }
    }
    let plist: Vec<String> = params.iter().map(|(t, _, n)| format!("{t} {n}")).collect();
    let src = format!("{preamble}def user_def({}){} {{ {body}}}\n", plist.join(", "), ret_text.as_ref().map(|r| format!(" -> {r}")).unwrap_or_default());
    obs.fp.str(&src);
    let res = match analyse_text(&src) {
        Ok(r) => r,
        Err(_) => {
            obs.inconclusive("analysis failed");
            return;
        }
    };
    let cell = |clause: &str| format!("def-signature/{np}-params/{}/{clause}", if ret.is_some() { "returns" } else { "void" });
    let out = guard(|| {
        let t = res.symbol_table();
        let mut problems: Vec<(String, String)> = Vec::new();
        match find_symbol(t, "user_def") {
            Some(Type::SubroutineDef(SubroutineDef { num_params, return_type })) => {
                if *num_params != np {
                    problems.push(("def-param-count".into(), format!("{num_params} vs {np}")));
                }
                let want = match &ret {
                    None => Type::Void,
                    Some((_, b, w)) => expected_type(b, *w, false),
                };
                // const-ness of a return type is not a declared attribute: compare up to const
                let strip = |t: &Type| format!("{t:?}").replace("True", "_").replace("False", "_");
                if strip(return_type) != strip(&want) {
                    problems.push(("def-return-type".into(), format!("{return_type:?} vs {want:?}")));
                }
            }
            other => problems.push(("def-symbol-type".into(), format!("{other:?}"))),
        }
        for (_, want, n) in &params {
            match find_symbol(t, n) {
                Some(t) if t == want => {}
                other => problems.push(("def-parameter-type".into(), format!("{n}: {other:?} vs {want:?}"))),
            }
        }
        // DefStmt::return_type of the graph
        if let Some(oq3_semantics::asg::Stmt::DefStmt(d)) = res.program().stmts().iter().find(|s| matches!(s, oq3_semantics::asg::Stmt::DefStmt(_))) {
            let want = match &ret {
                None => Type::Void,
                Some((_, b, w)) => expected_type(b, *w, false),
            };
            let strip = |t: &Type| format!("{t:?}").replace("True", "_").replace("False", "_");
            if strip(d.return_type()) != strip(&want) {
                problems.push(("defstmt-return-type".into(), format!("{:?} vs {want:?}", d.return_type())));
            }
        }
        problems
    });
    match out {
        Ok(problems) => {
            for (c, d) in problems {
                obs.violate(cell(&c), format!("{src:?}: {d}"));
            }
        }
        Err(p) => obs.inconclusive(format!("monitor panicked {}", p.site())),
    }
    obs.class("def-signature");
    obs.done(true);
}

impl Property for C09 {
    fn id(&self) -> &'static str {
        "C09"
    }
    fn rule(&self) -> &'static str {
        "Tiny programs, one declaration under test each. Table: 8 declaration forms (plain, with initialiser, const, input, output, def parameter, for-loop variable, cast target) x 10 base types x 15 designator forms (none; literal in 4 radices and with underscore; const identifier declared as int / int[32] / int[64] / int[128] / uint / via an expression / as float; non-const identifier; undeclared identifier) x 19 widths across [1, 2^33] plus 0 and negative values x 9 scope kinds (the full product in both tiers). Oracle: SymbolTable[id].symbol_type() equals the Type value the harness constructs from the declaration (base, width or none, const, register lengths); a width that does not fit u32, is negative or is not a constant integer must produce a designator diagnostic and must never be recorded silently as another number. Gate signatures 0-4 parameters x 1-4 qubits with and without stdgates.inc: Type::Gate arity, parameter/qubit types, and SymbolTable::gates() equal to exactly the user + standard-library gates with their arities. Random def signatures with 0-4 typed/qubit parameters and return types: SubroutineDef{num_params, return_type}, parameter types, DefStmt::return_type. Non-trivial: all. Distinct: source text."
    }
    fn streams(&self, tier: Tier, seed: u64) -> Vec<Stream> {
        let (nf, nc, nb, nw, nv) = (FORMS.len() as u64, CONTEXTS.len() as u64, BASES.len() as u64, WFORMS.len() as u64, WIDTHS.len() as u64);
        let full = nf * nc * nb * nw * nv;
        let spec = move |i: u64| {
            let f = i % nf;
            let cx = (i / nf) % nc;
            let b = (i / nf / nc) % nb;
            let wf = (i / nf / nc / nb) % nw;
            let w = (i / nf / nc / nb / nw) % nv;
            format!("D|{}|{}|{}|{}|{}", FORMS[f as usize], CONTEXTS[cx as usize], BASES[b as usize], WFORMS[wf as usize], WIDTHS[w as usize])
        };
        let mut v = Vec::new();
        // the whole table (205 200 tiny programs, about a second) in both tiers
        let _ = (tier, seed);
        v.push(Stream::new("declaration-table-full-product", full, true, spec));
        v.push(Stream::new("gate-signatures", 5 * 4 * 2, true, |i| format!("G|{}|{}|{}", i % 5, 1 + (i / 5) % 4, i / 20)));
        v.push(Stream::new("user-gate-named-like-a-library-gate", STDGATES.len() as u64 * 2, true, |i| {
            let n = STDGATES.len() as u64;
            let (_, a, b) = STDGATES[(i % n) as usize];
            // once with the library's arity, once with another one
            if i / n == 0 { format!("GC|{}|{a}|{b}", i % n) } else { format!("GC|{}|{}|{}", i % n, (a + 1) % 4, b % 3 + 1) }
        }));
        v.push(Stream::new("include-files-named-like-the-library", LIBRARY_LOOKALIKE_FILES.len() as u64 * 4, true, |i| {
            format!("UF|{}|{}|{}", i % LIBRARY_LOOKALIKE_FILES.len() as u64, (i / 6) % 2 * 2, 1 + i / 12)
        }));
        v.push(Stream::new("repeated-parameter-names", 3 * 4 * 3, true, |i| format!("GD|{}|{}|{}", 2 + i % 3, 1 + (i / 3) % 4, ["p", "q", "d"][(i / 12) as usize])));
        v.push(Stream::new("designator-identifier-shadowed-two-scopes-up", 4 * 5 * 3, true, |i| {
            let base = ["int", "uint", "float", "bit"][(i % 4) as usize];
            let pair = ["def>if", "def>while>if", "if>for", "for-var>if", "if>if"][((i / 4) % 5) as usize];
            let (wg, wi) = [("4", "8"), ("16", "2"), ("4", "nonconst")][(i / 20) as usize];
            format!("NS|{base}|{wg}|{wi}|{pair}")
        }));
        v.push(Stream::new("def-signatures", tier.pick(3_000, 100_000), false, move |i| format!("F|{}", mix(&[seed, 0xC09, 7, i]))));
        v
    }
    fn check(&self, input: &str, obs: &mut Obs) {
        if input.starts_with("D|") {
            check_decl(input, obs);
        } else if let Some(rest) = input.strip_prefix("G|") {
            let p: Vec<usize> = rest.split('|').filter_map(|x| x.parse().ok()).collect();
            check_gate_sig(p[0], p[1], p[2] == 1, obs);
        } else if let Some(rest) = input.strip_prefix("GD|") {
            let p: Vec<&str> = rest.split('|').collect();
            check_dup_params(p[0].parse().unwrap_or(2), p[1].parse().unwrap_or(1), p[2], obs);
        } else if let Some(rest) = input.strip_prefix("NS|") {
            check_nested_designator(rest, obs);
        } else if let Some(rest) = input.strip_prefix("UF|") {
            let p: Vec<usize> = rest.split('|').filter_map(|x| x.parse().ok()).collect();
            check_user_file_named_like_library(p[0], p[1], p[2], obs);
        } else if let Some(rest) = input.strip_prefix("GC|") {
            let p: Vec<usize> = rest.split('|').filter_map(|x| x.parse().ok()).collect();
            check_gate_collision(p[0], p[1], p[2], obs);
        } else if let Some(rest) = input.strip_prefix("F|") {
            check_def_sig(rest.parse().unwrap_or(0), obs);
        } else {
            obs.inconclusive("unrecognised input spec");
        }
    }
    fn mandatory_classes(&self, _tier: Tier) -> Vec<&'static str> {
        vec!["valid-declaration", "invalid-width", "gate-signature", "def-signature", "shadows-a-global-gate-name"]
    }
}

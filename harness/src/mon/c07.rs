//! C07 — names resolve by lexical scoping; undeclared and duplicate names are diagnosed.

use super::asgcmp::Walk;
use super::semcommon::*;
use crate::gen::modelgen::{GenCfg, MG};
use crate::model::*;
use crate::model_resolve::{DeclKey, Resolver, Target};
use crate::model_shrink::*;
use crate::rng::{mix, Rng};
use crate::worker::{guard, Obs, Property, Stream, Tier};
use oq3_semantics::semantic_error::SemanticErrorKind;
use oq3_semantics::symbols::SymbolError;
use oq3_semantics::types::Type;
use std::collections::HashMap;

pub struct C07;

enum Out {
    Held(Vec<String>),
    Violated(String, String),
    Inconclusive(String),
}

fn multiset(v: &[String]) -> Vec<(String, usize)> {
    let mut m: HashMap<&str, usize> = HashMap::new();
    for x in v {
        *m.entry(x.as_str()).or_insert(0) += 1;
    }
    let mut o: Vec<(String, usize)> = m.into_iter().map(|(k, v)| (k.to_string(), v)).collect();
    o.sort();
    o
}

/// `split = Some((j, mids))`: the first j top-level statements are moved into the innermost file of an
/// include chain with `mids` files in between that declare nothing (analysed through the search-path
/// entry point); the graph, the table and the diagnostics of all files together must be as for the flat text.
fn check(prog: &[S], seed: u64, split: Option<(usize, usize)>) -> (Out, String) {
    let lay = sem_layout(seed, seed % 3 == 0);
    let analysed = match split {
        None => analyse(prog, &lay).map(|a| {
            let src = a.printed.text.clone();
            let diags: Vec<(String, SemanticErrorKind, String)> = a
                .res
                .semantic_errors()
                .iter()
                .map(|e| {
                    let (x, y): (usize, usize) = (e.range().start().into(), e.range().end().into());
                    (diag_kind(e), e.kind().clone(), src.get(x..y).unwrap_or("").to_string())
                })
                .collect();
            (a.res, diags, a.printed.text)
        }),
        Some((j, mids)) => {
            let j = j.min(prog.len());
            let inner = print_program(&prog[..j], &lay).text;
            let rest = print_program(&prog[j..], &lay).text;
            analyse_chain(&inner, &rest, mids, "c07").map(|c| {
                let diags = c.diags.into_iter().map(|d| (d.kind, d.full, d.text)).collect();
                (c.res, diags, format!("[inner.inc through {mids} clean files] {inner} [main] {rest}"))
            })
        }
    };
    let (res, diags, text) = match analysed {
        Err(AErr::Rejected(m)) => return (Out::Inconclusive(format!("rejected by the parser (C04): {m}")), String::new()),
        Err(AErr::Panic(site, _)) => return (Out::Inconclusive(format!("analysis panicked (C03): {site}")), String::new()),
        Ok(a) => a,
    };
    let res = &res;
    let r = guard(|| -> Out {
        let mut w = Walk::default();
        if let Err((role, d)) = w.program(prog, res.program()) {
            return Out::Inconclusive(format!("graph structure differs (C06): {role}: {d}"));
        }
        let rs = Resolver::program(prog);
        let table = res.symbol_table();
        let ord = |s: &oq3_semantics::symbols::SymbolId| table.verif_symbol_ordinal(s);
        let mut classes: Vec<String> = Vec::new();
        // ---- declarations
        let mut decl_id: HashMap<DeclKey, usize> = HashMap::new();
        let mut seen_ids: HashMap<usize, DeclKey> = HashMap::new();
        for d in &rs.decls {
            let Some((_, obs)) = w.decls.iter().find(|(k, _)| *k == d.key) else {
                return Out::Inconclusive(format!("declaration {:?} of {} not reached by the walker", d.key, d.name));
            };
            match (d.duplicate, obs) {
                (false, Ok(id)) => {
                    let o = ord(id);
                    if let Some(prev) = seen_ids.insert(o, d.key) {
                        return Out::Violated(format!("declaration/{}/two-declarations-share-a-symbol", d.kind), format!("declarations {prev:?} and {:?} ({}) both got symbol {o}", d.key, d.name));
                    }
                    if table[id].name() != d.name {
                        return Out::Violated(format!("declaration/{}/symbol-name", d.kind), format!("symbol {o} is named {:?}, declared name is {:?}", table[id].name(), d.name));
                    }
                    decl_id.insert(d.key, o);
                }
                (true, Err(SymbolError::AlreadyBound)) => classes.push("duplicate".into()),
                (false, Err(e)) => {
                    return Out::Violated(format!("declaration/{}/legal-declaration-rejected", d.kind), format!("declaration of {:?} (first in its scope, depth {}) is marked {e:?}", d.name, d.scope_depth));
                }
                (true, other) => {
                    return Out::Violated(format!("declaration/{}/duplicate-not-marked", d.kind), format!("second declaration of {:?} in one scope is recorded as {other:?}", d.name));
                }
            }
        }
        // ---- uses
        let mut unresolved_var: Vec<String> = Vec::new();
        let mut unresolved_gate: Vec<String> = Vec::new();
        for u in &rs.uses {
            let Some((_, obs, ty)) = w.uses.iter().find(|(id, _, _)| *id == u.id) else {
                // uses inside opaque nodes (index expressions on non-identifiers have no public
                // accessors): the binding cannot be observed, the diagnostic still can
                if u.target.is_none() {
                    if u.position == "gate-name" {
                        unresolved_gate.push(u.name.clone());
                    } else {
                        unresolved_var.push(u.name.clone());
                    }
                }
                continue;
            };
            classes.push(format!("{}:{}", u.relation, if u.position == "gate-name" { "gate-name" } else { "use" }));
            let cell = |clause: &str| format!("use/{}/{}/{clause}", u.position, u.relation);
            match (&u.target, obs) {
                (Some(Target::Decl(k)), Ok(id)) => {
                    let want = decl_id.get(k);
                    if want != Some(&ord(id)) {
                        let other = seen_ids.get(&ord(id));
                        return Out::Violated(cell("wrong-declaration"), format!("use of {:?} refers to symbol {} ({:?}), the innermost visible declaration is {k:?} = symbol {want:?}", u.name, ord(id), other));
                    }
                    if table[id].name() != u.name {
                        return Out::Violated(cell("symbol-name"), format!("symbol {} is named {:?}, written {:?}", ord(id), table[id].name(), u.name));
                    }
                }
                (Some(Target::Builtin(b)), Ok(id)) => {
                    if seen_ids.contains_key(&ord(id)) || table[id].name() != *b {
                        return Out::Violated(cell("builtin-resolved-to-user-symbol"), format!("use of built-in {:?} refers to symbol {} named {:?}", b, ord(id), table[id].name()));
                    }
                }
                (None, Err(SymbolError::MissingBinding)) => {
                    if u.position == "gate-name" {
                        unresolved_gate.push(u.name.clone());
                    } else {
                        unresolved_var.push(u.name.clone());
                    }
                    if !matches!(ty, Type::Undefined | Type::Void | Type::ToDo) {
                        return Out::Violated(cell("unresolved-not-typed-undefined"), format!("unresolved {:?} has type {ty:?}", u.name));
                    }
                }
                (None, Ok(id)) => {
                    return Out::Violated(cell("resolved-without-visible-declaration"), format!("use of {:?} has no visible declaration but refers to symbol {} ({:?})", u.name, ord(id), table[id].name()));
                }
                (Some(t), Err(e)) => {
                    return Out::Violated(cell("visible-declaration-not-found"), format!("use of {:?} should refer to {t:?} but is marked {e:?}", u.name));
                }
                (None, Err(e)) => return Out::Violated(cell("wrong-marker"), format!("unresolved use of {:?} is marked {e:?}", u.name)),
            }
        }
        // ---- diagnostics: exactly once per unresolved use / duplicate
        let mut got_var = Vec::new();
        let mut got_gate = Vec::new();
        let mut got_redecl = Vec::new();
        for (kind, full, t) in &diags {
            let name: String = t.chars().take_while(|c| c.is_alphanumeric() || *c == '_').collect();
            match kind.as_str() {
                "UndefVarError" => got_var.push(name),
                "UndefGateError" => got_gate.push(name),
                "RedeclarationError" => {
                    if let SemanticErrorKind::RedeclarationError(n) = full {
                        got_redecl.push(n.clone());
                    }
                }
                _ => {}
            }
        }
        if multiset(&got_var) != multiset(&unresolved_var) {
            return Out::Violated("diagnostics/undefined-variable-not-exactly-once".into(), format!("UndefVarError reported for {:?}, unresolved uses are {:?}", multiset(&got_var), multiset(&unresolved_var)));
        }
        if multiset(&got_gate) != multiset(&unresolved_gate) {
            return Out::Violated("diagnostics/undefined-gate-not-exactly-once".into(), format!("UndefGateError reported for {:?}, unresolved gate names are {:?}", multiset(&got_gate), multiset(&unresolved_gate)));
        }
        let mut want_redecl: Vec<String> = rs.decls.iter().filter(|d| d.duplicate).map(|d| d.name.clone()).collect();
        want_redecl.extend(rs.stdlib_collisions.iter().map(|c| c.1.clone()));
        if multiset(&got_redecl) != multiset(&want_redecl) {
            let clause = if got_redecl.len() > want_redecl.len() { "redeclaration-reported-for-legal-declaration" } else { "duplicate-not-reported-exactly-once" };
            return Out::Violated(format!("diagnostics/{clause}"), format!("RedeclarationError for {:?}, duplicates in one scope are {:?}", multiset(&got_redecl), multiset(&want_redecl)));
        }
        if table.verif_scope_depth() != 1 {
            return Out::Violated("scope-stack-not-restored".into(), format!("{} scopes open", table.verif_scope_depth()));
        }
        if !unresolved_var.is_empty() || !unresolved_gate.is_empty() {
            classes.push("undeclared".into());
        }
        Out::Held(classes)
    });
    match r {
        Ok(o) => (o, text),
        Err(p) => (Out::Inconclusive(format!("monitor panicked: {} {}", p.site(), p.msg)), text),
    }
}

fn check_program(prog: &[S], seed: u64, split: Option<(usize, usize)>, obs: &mut Obs) {
    obs.fp.str(&skel_program(prog));
    if let Some((j, mids)) = split {
        obs.fp.u64(j as u64 * 8 + mids as u64 + 1);
        obs.class("split-across-include-chain");
    }
    match check(prog, seed, split) {
        (Out::Held(classes), text) => {
            for c in &classes {
                obs.class(c);
                obs.count(&format!("relation:{c}"));
            }
            obs.fp.u64(classes.len() as u64);
            obs.note = format!("{:?}: every use bound to the declaration of the reference resolver ({} uses/relations)", crate::worker::truncate(text.trim(), 200), classes.len());
            obs.done(classes.len() >= 2);
        }
        (Out::Inconclusive(why), _) => {
            obs.count(&format!("inconclusive:{}", why.split(':').next().unwrap_or("")));
            obs.inconclusive(why);
        }
        (Out::Violated(cell0, _), _) => {
            // (a split program is reported as it is: shrinking would move the split point)
            let mut pred = |p: &[S]| matches!(check(p, seed, None), (Out::Violated(c, _), _) if c == cell0);
            let min = if split.is_some() { prog.to_vec() } else { shrink_program(prog, &mut pred, 800) };
            let (cell, d, text) = match check(&min, seed, split) {
                (Out::Violated(c, d), t) => (c, d, t),
                _ => (cell0.clone(), String::new(), String::new()),
            };
            let cell = if split.is_some() { format!("via-include-chain/{cell}") } else { cell };
            obs.violate(format!("{cell}/{}", skel_program(&min)), format!("{:?}: {d}", text.trim()));
            obs.done(true);
        }
    }
}

/// A name used as the width of a type is a use like any other: undeclared, declared later or declared
/// in a scope that has been closed it is reported as undefined exactly once; declared before, not at all.
const DESIGNATOR_USES: &[&str] = &[
    "int[n] x;", "bit[n] b;", "qubit[n] qr;", "complex[float[n]] z;", "int y; int[n](y);", "for uint[n] i in [0:1] { }", "def f(int[n] a) { }",
    "def f() -> int[n] { }", "angle[n] a;", "input float[n] fi;", "const uint[n] u = 1;",
];

fn designator_case(i: usize, obs: &mut Obs) {
    let stmt = DESIGNATOR_USES[i % DESIGNATOR_USES.len()];
    let variant = (i / DESIGNATOR_USES.len()) % 4;
    let in_block = (i / DESIGNATOR_USES.len() / 4) % 2 == 1;
    // definitions, io and qubit declarations stay at the global scope
    let global_only = stmt.starts_with("def") || stmt.starts_with("input") || stmt.starts_with("qubit");
    let body = if in_block && !global_only { format!("if (true) {{ {stmt} }}") } else { stmt.to_string() };
    let (src, want) = match variant {
        0 => (body.clone(), 1usize),
        1 => (format!("const int n = 8;\n{body}"), 0),
        2 => (format!("{body}\nconst int n = 8;"), 1),
        _ => (format!("if (true) {{ const int n = 8; }}\n{body}"), 1),
    };
    obs.fp.str(&src);
    let vname = ["undeclared", "declared-before", "declared-later", "declared-in-closed-scope"][variant];
    match analyse_text(&src) {
        Err(AErr::Rejected(m)) => obs.inconclusive(format!("rejected by the parser (C04): {m}")),
        Err(AErr::Panic(site, _)) => obs.inconclusive(format!("analysis panicked (C03): {site}")),
        Ok(res) => {
            let got = res
                .semantic_errors()
                .iter()
                .filter(|e| {
                    let (a, b): (usize, usize) = (e.range().start().into(), e.range().end().into());
                    diag_kind(e) == "UndefVarError" && src.get(a..b) == Some("n")
                })
                .count();
            if got != want {
                let kinds: Vec<String> = res.semantic_errors().iter().map(diag_kind).collect();
                obs.violate(format!("designator-use/{vname}/undefined-not-exactly-once/{}", stmt.split(['[', ' ']).next().unwrap_or("")), format!("{src:?}: UndefVarError for `n` reported {got} times, expected {want}; diagnostics {kinds:?}"));
            }
            obs.class("designator-use");
            obs.note = format!("{src:?}: UndefVarError(n) x {got}");
            obs.done(true);
        }
    }
}

impl Property for C07 {
    fn id(&self) -> &'static str {
        "C07"
    }
    fn rule(&self) -> &'static str {
        "Random model programs with scopes nested to depth 4-5 whose names come from a small pool (a b c n x f g pi θ; qubits q r qq; standard gate names and U) so that shadowing, reuse after scope exit, duplicates and collisions with built-ins occur constantly; declarations of every kind (classical, const, qubit, alias, io, loop variable, gate and def parameters, gate and def names) and uses in every position. A reference resolver implements the property literally; the monitor walks the semantic graph, builds the bijection model declaration <-> SymbolId from the declaration nodes and checks every use against it, checks table[id].name() against the identifier written, Err(MissingBinding)/Undefined for unresolved uses, Err(AlreadyBound) for duplicates, and that UndefVarError / UndefGateError / RedeclarationError are reported exactly once per unresolved use / duplicate (multisets by name), and that one scope is open afterwards. Non-trivial: >= 2 uses. Distinct: program skeleton + relations."
    }
    fn streams(&self, tier: Tier, seed: u64) -> Vec<Stream> {
        vec![
            Stream::new("random-programs-small-name-pool", tier.pick(30_000, 1_500_000), false, move |i| format!("rand:{}", mix(&[seed, 0xC07, 1, i]))),
            Stream::new("random-programs-deep", tier.pick(4_000, 200_000), false, move |i| format!("deep:{}", mix(&[seed, 0xC07, 2, i]))),
            Stream::new("scope-kind-table", 9 * 4, true, |i| format!("scope:{}:{}", i % 9, i / 9)),
            Stream::new("names-used-as-type-widths", (DESIGNATOR_USES.len() * 4 * 2) as u64, true, |i| format!("des:{i}")),
            Stream::new("random-programs-split-across-include-chains", tier.pick(3_000, 100_000), false, move |i| format!("inc:{}", mix(&[seed, 0xC07, 3, i]))),
        ]
    }
    fn check(&self, input: &str, obs: &mut Obs) {
        let parts: Vec<&str> = input.split(':').collect();
        match parts[0] {
            "rand" | "deep" | "inc" => {
                let seed: u64 = parts[1].parse().unwrap_or(0);
                let mut r = Rng::new(seed);
                let deep = parts[0] == "deep";
                // one program in three draws its names from the built-in constants in both of
                // their spellings (uses of them, and declarations that shadow them)
                let names = if seed % 3 == 0 { vec!["pi", "π", "tau", "τ", "euler", "ℇ", "a", "U"] } else { vec!["a", "b", "x", "f", "pi", "U", "h", "q"] };
                let cfg = GenCfg {
                    names,
                    qnames: vec!["q", "r", "a"],
                    max_depth: if deep { 5 } else { 3 },
                    max_stmts: if deep { 10 } else { 6 },
                    ..GenCfg::semantic()
                };
                let mut g = MG::new(&mut r, cfg);
                let prog = g.program();
                let split = if parts[0] == "inc" {
                    // split point 1..=len, 0..=2 clean files between main and the innermost file
                    Some((1 + (seed >> 8) as usize % prog.len().max(1), (seed >> 20) as usize % 3))
                } else {
                    None
                };
                check_program(&prog, seed, split, obs);
            }
            "des" => designator_case(parts[1].parse().unwrap_or(0), obs),
            "scope" => {
                // a declaration inside scope kind k, then a use after the scope closed (variant v)
                let k: u64 = parts[1].parse().unwrap_or(0);
                let v: u64 = parts[2].parse().unwrap_or(0);
                let mut r = Rng::new(mix(&[0xC07, k, v]));
                let mut g = MG::new(&mut r, GenCfg::semantic());
                let prog = scope_case(&mut g, k, v);
                obs.class("scope-table");
                check_program(&prog, k * 7 + v, None, obs);
            }
            _ => obs.inconclusive("unrecognised input spec"),
        }
    }
    fn mandatory_classes(&self, _tier: Tier) -> Vec<&'static str> {
        vec!["shadowed:use", "outer:use", "same-scope:use", "after-exit:use", "undeclared", "duplicate", "builtin:use", "scope-table", "split-across-include-chain", "designator-use"]
    }
}

/// `int x` declared inside scope kind k; variants: 0 use after exit, 1 shadowing an outer x and
/// use after exit, 2 duplicate inside the scope, 3 use before declaration inside the scope.
fn scope_case(g: &mut MG, k: u64, v: u64) -> Vec<S> {
    let ident = |g: &mut MG, n: &str| g.e(EK::Ident(n.to_string()));
    let decl = |g: &mut MG, n: &str, val: &str| {
        let e = g.e(EK::Int(val.to_string()));
        g.s(SK::Decl(false, MTy::new(Base::Int, Some(32)), n.to_string(), Some(e)))
    };
    let usex = |g: &mut MG| {
        let t = ident(g, "y");
        let x = ident(g, "x");
        g.s(SK::Assign(t, None, x))
    };
    let mut inner: Vec<S> = Vec::new();
    if v == 3 {
        inner.push(usex(g));
    }
    inner.push(decl(g, "x", "1"));
    if v == 2 {
        inner.push(decl(g, "x", "2"));
    }
    inner.push(usex(g));
    let c = ident(g, "c");
    let scoped = match k {
        0 => g.s(SK::If(c, Body::Block(inner), None)),
        1 => {
            let b = g.s(SK::Break);
            g.s(SK::If(c, Body::Block(vec![b]), Some(Body::Block(inner))))
        }
        2 => g.s(SK::While(c, Body::Block(inner))),
        3 => {
            let a = g.e(EK::Int("0".into()));
            let b = g.e(EK::Int("3".into()));
            let r = g.e(EK::Range(Box::new(a), None, Box::new(b)));
            g.s(SK::For(MTy::new(Base::Int, None), "i".into(), Iterable::Range(r), Body::Block(inner)))
        }
        4 => {
            let one = g.e(EK::Int("1".into()));
            g.s(SK::Switch(c, vec![(vec![one], inner)], None))
        }
        5 => g.s(SK::Switch(c, vec![], Some(inner))),
        6 => g.s(SK::Gate("gg".into(), None, vec!["qa".into()], inner)),
        7 => g.s(SK::Def("ff".into(), vec![(Some(MTy::new(Base::Int, None)), "p".into())], None, inner)),
        _ => {
            // loop variable itself: for int x in ... { use x } ; use x
            let a = g.e(EK::Int("0".into()));
            let b = g.e(EK::Int("3".into()));
            let r = g.e(EK::Range(Box::new(a), None, Box::new(b)));
            let u = usex(g);
            g.s(SK::For(MTy::new(Base::Int, None), "x".into(), Iterable::Range(r), Body::Block(vec![u])))
        }
    };
    let mut prog = vec![decl(g, "y", "0"), decl(g, "c", "1")];
    if v == 1 {
        prog.push(decl(g, "x", "9"));
    }
    prog.push(scoped);
    prog.push(usex(g));
    prog
}

//! C18 — includes act as in-place textual inclusion with ordered path search.
//!
//! Every copy of an include file carries a uniquely named declaration, so the copy that was read
//! identifies itself in the symbol table; the analysed result is compared with the analysis of
//! the flattened text built by the harness's own resolution of the search list.

use crate::rng::{mix, Rng};
use crate::worker::{guard, Obs, Property, Stream, Tier};
use oq3_semantics::semantic_error::SemanticErrorList;
use oq3_semantics::symbols::SymbolType;
use oq3_semantics::syntax_to_semantics::{parse_source_file, parse_source_file_with_search, parse_source_string, parse_source_string_with_path_search, ParseResult};
use oq3_source_file::SourceTrait;
use std::path::{Path, PathBuf};

pub struct C18;

#[derive(Clone, Copy, PartialEq, Debug)]
enum Presence {
    Absent,
    File,
    Directory,
}

struct Layout {
    root: PathBuf,
    dirs: Vec<PathBuf>,
    nfiles: usize,
    presence: Vec<Vec<Presence>>, // [file][dir]
    content: Vec<Vec<String>>,    // [file][dir]
    search: Vec<usize>,           // order of dirs in the search list
    main: String,
    includes_in_main: Vec<(usize, bool)>, // (file, absolute path used)
    entry: usize,                         // 0 string+list, 1 file+list, 2 file+env, 3 string+env
    class: String,
}

fn fname(f: usize) -> String {
    format!("inc{f}.qasm")
}

fn scratch(tag: &str) -> PathBuf {
    use std::sync::atomic::{AtomicU64, Ordering};
    static N: AtomicU64 = AtomicU64::new(0);
    let n = N.fetch_add(1, Ordering::Relaxed);
    let base = std::env::current_dir().unwrap_or_else(|_| PathBuf::from("."));
    let d = base.join("fs").join(format!("{tag}-{}-{n}", std::process::id()));
    let _ = std::fs::create_dir_all(&d);
    std::fs::canonicalize(&d).unwrap_or(d)
}

/// Files named like the include files, in the current directory of the process: a relative include
/// is resolved through the search list (or QASM3_PATH), never against the current directory.
fn cwd_decoys() {
    use std::sync::Once;
    static ONCE: Once = Once::new();
    ONCE.call_once(|| {
        // (only for inc0.qasm, which every case keeps readable in a searched directory: what happens to a
        // relative include that is on no search path at all is not something the property settles)
        let p = PathBuf::from(fname(0));
        if !p.exists() {
            let _ = std::fs::write(&p, "int cwd_decoy_must_not_be_read = 1;\nint cwd_decoy_must_not_be_read = 2;\n");
        }
    });
}

fn build(seed: u64) -> Layout {
    cwd_decoys();
    let mut r = Rng::new(seed);
    let root = scratch("c18");
    let ndirs = r.range(1, 3) as usize;
    let nfiles = r.range(1, 4) as usize;
    let dirs: Vec<PathBuf> = (0..ndirs).map(|d| root.join(format!("d{d}"))).collect();
    for d in &dirs {
        let _ = std::fs::create_dir_all(d);
    }
    let mut presence = vec![vec![Presence::Absent; ndirs]; nfiles];
    let mut content = vec![vec![String::new(); ndirs]; nfiles];
    let mut n_present = vec![0usize; nfiles];
    for f in 0..nfiles {
        for d in 0..ndirs {
            presence[f][d] = match r.below(10) {
                0..=4 => Presence::File,
                5 => Presence::Directory,
                _ => Presence::Absent,
            };
            if presence[f][d] == Presence::File {
                n_present[f] += 1;
            }
        }
    }
    for f in 0..nfiles {
        for d in 0..ndirs {
            // uniquely named declaration per copy
            let mut t = format!("int[32] v_f{f}_d{d} = {};\n", 100 * f + d);
            if r.chance(1, 3) {
                t.push_str("include \"stdgates.inc\";\n");
            }
            if r.chance(1, 4) {
                t.push_str(&format!("undeclared_f{f} = v_f{f}_d{d};\n"));
            }
            if r.chance(1, 4) {
                t.push_str("int shared = 1;\n");
            }
            // nested include of a higher-numbered file (no cycles), depth <= 3 by construction
            if f + 1 < nfiles && r.chance(1, 2) {
                let g = r.range(f as u64 + 1, nfiles as u64 - 1) as usize;
                t.push_str(&format!("include \"{}\";\n", fname(g)));
                t.push_str(&format!("float w_f{f}_d{d} = 1.5;\n"));
            }
            if r.chance(1, 5) {
                t.push_str(&format!("if (v_f{f}_d{d} == 1) {{ qubit inner_q; }}\n"));
            }
            // now and then a copy is blank: empty, whitespace only, or a lone comment
            if r.chance(1, 8) {
                t = r.pick(&["", "\n", "  \t\n\n", "// nothing here\n", "/* nothing here */"]).to_string();
            }
            content[f][d] = t;
        }
    }
    for f in 0..nfiles {
        for d in 0..ndirs {
            let p = dirs[d].join(fname(f));
            match presence[f][d] {
                Presence::File => {
                    let _ = std::fs::write(&p, &content[f][d]);
                }
                Presence::Directory => {
                    let _ = std::fs::create_dir_all(&p);
                }
                Presence::Absent => {}
            }
        }
    }
    // a real file named stdgates.inc must not be consulted
    if r.chance(1, 4) {
        let _ = std::fs::write(dirs[0].join("stdgates.inc"), "int this_file_must_not_be_read = 1;\n");
    }
    // search list: a permutation of a non-empty subset of the directories
    let mut search: Vec<usize> = (0..ndirs).collect();
    for i in (1..search.len()).rev() {
        let j = r.usize(i + 1);
        search.swap(i, j);
    }
    let keep = r.range(1, ndirs as u64) as usize;
    search.truncate(keep);
    // inc0.qasm is readable in at least one searched directory (a same-named file sits in the
    // current directory of the process, see cwd_decoys)
    if !search.iter().any(|&d| presence[0][d] == Presence::File) {
        let d0 = *search.last().unwrap();
        let p = dirs[d0].join(fname(0));
        if presence[0][d0] == Presence::Directory {
            let _ = std::fs::remove_dir_all(&p);
        }
        presence[0][d0] = Presence::File;
        n_present[0] += 1;
        let _ = std::fs::write(&p, &content[0][d0]);
    }
    // main program
    let mut main = String::from("int[32] before = 1;\n");
    if r.chance(1, 2) {
        // now and then a user gate named like a library gate (same arity) in front of the library: one
        // redeclaration, every other library gate is still provided
        if r.chance(1, 3) {
            main.push_str(*r.pick(&["gate cswap ua, ub, uc { }\n", "gate x ua { }\n", "gate cx ua, ub { }\n", "gate ccx ua, ub, uc { }\n", "gate id ua { }\n"]));
        }
        main.push_str("include \"stdgates.inc\";\nqubit q;\nh q;\n");
    }
    main.push_str("before = v_f0_d0;\n"); // use before the include: unresolved
    let nincl = r.range(1, 3) as usize;
    let mut includes_in_main = Vec::new();
    for _ in 0..nincl {
        let f = r.usize(nfiles);
        // absolute path to a specific copy
        let abs = r.chance(1, 5);
        if abs {
            let d = r.usize(ndirs);
            main.push_str(&format!("include \"{}\";\n", dirs[d].join(fname(f)).display()));
            includes_in_main.push((f * 100 + d, true));
        } else {
            // now and then an annotation directly in front of the include: it belongs to the first
            // statement of the included text
            if r.chance(1, 4) {
                main.push_str("@before_include some words\n");
            }
            main.push_str(&format!("include \"{}\";\n", fname(f)));
            includes_in_main.push((f, false));
        }
        main.push_str(&format!("int[32] after_{} = 2;\n", includes_in_main.len()));
    }
    // a path whose last component is `stdgates.inc` is an ordinary file path, not the built-in
    // library (which is spelled exactly `stdgates.inc`); it is followed by another include so that
    // a slip in the pairing of include statements and files read becomes visible
    if r.chance(1, 4) {
        // (the directory does not exist: whether `./stdgates.inc` may read a decoy file of that
        // name is not something the property settles, so it is not generated)
        main.push_str(*r.pick(&["include \"nowhere/stdgates.inc\";\n", "include \"no/such/dir/stdgates.inc\";\n"]));
        let f = r.usize(nfiles);
        main.push_str(&format!("include \"{}\";\n", fname(f)));
        includes_in_main.push((f, false));
        main.push_str("int[32] after_dir_stdgates = 3;\n");
    }
    if r.chance(1, 4) {
        main.push_str("include \"does_not_exist.qasm\";\n");
    }
    if r.chance(1, 3) {
        // an include below the global scope, in every kind of body; in front of the includes at the
        // global scope (so that a slip in the pairing of include statements and files read shows in
        // every later include) or behind them
        let block_include = *r.pick(&[
            "if (before == 1) { include \"inc0.qasm\"; }\n",
            "if (before == 1) { } else { include \"inc0.qasm\"; }\n",
            "while (before == 1) { include \"inc0.qasm\"; }\n",
            "for int lv in [0:1] { include \"inc0.qasm\"; }\n",
            "switch (before) { case 1 { include \"inc0.qasm\"; } default { include \"inc0.qasm\"; } }\n",
            "gate holder_g qh { include \"inc0.qasm\"; }\n",
            "def holder_d() { include \"inc0.qasm\"; }\n",
            "def holder_e(int pe) { if (pe == 1) { include \"inc0.qasm\"; } }\n",
        ]);
        if r.bool() {
            main.push_str(block_include);
        } else {
            let at = main.find("before = v_f0_d0;\n").map(|p| p + "before = v_f0_d0;\n".len()).unwrap_or(0);
            main.insert_str(at, block_include);
        }
    }
    // uses of every copy's name: only the copies that were read resolve
    for f in 0..nfiles {
        for d in 0..ndirs {
            main.push_str(&format!("before = v_f{f}_d{d};\n"));
        }
    }
    main.push_str("int shared = 2;\n");
    let entry = r.below(4) as usize;
    let class = format!(
        "dirs{ndirs}-files{nfiles}-search{}-{}",
        search.len(),
        ["string+list", "file+list", "file+env", "string+env"][entry]
    );
    Layout {
        root,
        dirs,
        nfiles,
        presence,
        content,
        search,
        main,
        includes_in_main,
        entry,
        class,
    }
}

impl Layout {
    /// The harness's own resolution: first directory of the search list that holds a regular file.
    fn resolve(&self, name: &str) -> Option<(PathBuf, String)> {
        let p = Path::new(name);
        if p.is_absolute() {
            return std::fs::read_to_string(p).ok().map(|t| (p.to_path_buf(), t));
        }
        for &d in &self.search {
            let full = self.dirs[d].join(name);
            if full.is_file() {
                return std::fs::read_to_string(&full).ok().map(|t| (full, t));
            }
        }
        None
    }

    /// Textual inclusion, recursively.  Returns the flattened text and the list of files read
    /// in inclusion order (pre-order).
    fn flatten(&self, text: &str, read: &mut Vec<PathBuf>, missing: &mut Vec<String>, depth: usize) -> String {
        let mut out = String::new();
        for line in text.lines() {
            let t = line.trim();
            if let Some(rest) = t.strip_prefix("include \"") {
                if let Some(name) = rest.strip_suffix("\";") {
                    if name == "stdgates.inc" {
                        out.push_str(line);
                        out.push('\n');
                        continue;
                    }
                    match self.resolve(name) {
                        Some((p, body)) if depth < 6 => {
                            read.push(p);
                            out.push_str(&self.flatten(&body, read, missing, depth + 1));
                        }
                        _ => missing.push(name.to_string()),
                    }
                    continue;
                }
            }
            out.push_str(line);
            out.push('\n');
        }
        out
    }
}

fn kinds_of(list: &SemanticErrorList, out: &mut Vec<String>, tags: &mut Vec<(PathBuf, Vec<String>)>) {
    let own: Vec<String> = list.iter().map(|e| format!("{:?}", e.kind())).collect();
    out.extend(own.iter().cloned());
    for inc in list.include_errors() {
        let mut sub = Vec::new();
        let mut subtags = Vec::new();
        kinds_of(inc, &mut sub, &mut subtags);
        let own_sub: Vec<String> = inc.iter().map(|e| format!("{:?}", e.kind())).collect();
        tags.push((inc.source_file_path().clone(), own_sub));
        tags.extend(subtags);
        out.extend(sub);
    }
}

struct Seen {
    nstmts: usize,
    symbols: Vec<(String, String)>,
    kinds: Vec<String>,
    tags: Vec<(PathBuf, Vec<String>)>,
    program_dbg: String,
    syntax_errors: bool,
    file_not_found_ranges_ok: bool,
}

fn observe<T: SourceTrait>(res: &ParseResult<T>, main_text: &str) -> Seen {
    let table = res.symbol_table();
    let symbols: Vec<(String, String)> = (0..table.verif_num_symbols())
        .map(|i| {
            let s = &table[&table.verif_symbol_id(i)];
            (s.name().to_string(), format!("{:?}", s.symbol_type()))
        })
        .collect();
    let mut kinds = Vec::new();
    let mut tags = Vec::new();
    kinds_of(res.semantic_errors(), &mut kinds, &mut tags);
    // an unreadable include is reported on the include's path node: the range refers to the text
    // of the file that contains the include statement (the parent of the list it is filed under)
    fn walk(list: &SemanticErrorList, text: &str, ok: &mut bool) {
        // file diagnostics are filed in the list of the file that contains the include statement
        for e in list.iter() {
            let k = format!("{:?}", e.kind());
            if k == "FileNotFound" || k == "IOError" || k == "PermissionDenied" {
                let (a, b): (usize, usize) = (e.range().start().into(), e.range().end().into());
                let t = text.get(a..b).unwrap_or("");
                if !(t.len() >= 2 && t.starts_with('"') && t.ends_with('"')) {
                    *ok = false;
                }
            }
        }
        for inc in list.include_errors() {
            let text = std::fs::read_to_string(inc.source_file_path()).unwrap_or_default();
            walk(inc, &text, ok);
        }
    }
    let mut ranges_ok = true;
    walk(res.semantic_errors(), main_text, &mut ranges_ok);
    Seen {
        nstmts: res.program().stmts().len(),
        symbols,
        kinds,
        tags,
        program_dbg: format!("{:?}", res.program().stmts()),
        syntax_errors: res.any_syntax_errors(),
        file_not_found_ranges_ok: ranges_ok,
    }
}

fn check_layout(seed: u64, obs: &mut Obs) {
    let lay = build(seed);
    obs.fp.str(&lay.main);
    obs.fp.u64(seed);
    let dirs: Vec<PathBuf> = lay.search.iter().map(|&d| lay.dirs[d].clone()).collect();
    let main_path = lay.root.join("main.qasm");
    let _ = std::fs::write(&main_path, &lay.main);
    let mut read = Vec::new();
    let mut missing = Vec::new();
    let flat = lay.flatten(&lay.main, &mut read, &mut missing, 0);
    let cell = |clause: &str| format!("{clause}/{}", lay.class);
    // environment for the env-based entry points
    let joined = std::env::join_paths(dirs.iter()).unwrap_or_default();
    let use_env = lay.entry >= 2;
    if use_env {
        std::env::set_var("QASM3_PATH", &joined);
    } else {
        // a misleading environment must be ignored when a list is given: it names the
        // directories that are NOT in the list (files found only there must stay unresolved)
        let mut others: Vec<PathBuf> = (0..lay.dirs.len()).filter(|d| !lay.search.contains(d)).map(|d| lay.dirs[d].clone()).collect();
        others.push(lay.root.join("nowhere"));
        std::env::set_var("QASM3_PATH", std::env::join_paths(others.iter()).unwrap_or_default());
    }
    let main_text = lay.main.clone();
    let r = guard(|| match lay.entry {
        0 => observe(&parse_source_string_with_path_search(&main_text, Some("main.qasm"), Some(&dirs)), &main_text),
        1 => observe(&parse_source_file_with_search(&main_path, Some(&dirs)), &main_text),
        2 => observe(&parse_source_file(&main_path), &main_text),
        _ => observe(&parse_source_string(&main_text, Some("main.qasm")), &main_text),
    });
    let r_flat = guard(|| observe(&parse_source_string_with_path_search(&flat, Some("flat.qasm"), Some(&Vec::<PathBuf>::new())), &flat));
    std::env::remove_var("QASM3_PATH");
    let detail_hdr = format!(
        "search list {:?}; presence {:?}; main:\n{}",
        lay.search,
        lay.presence,
        crate::worker::truncate(&lay.main, 700)
    );
    match (r, r_flat) {
        (Err(p), _) => {
            obs.violate(cell(&format!("panic/{}", p.site())), format!("{detail_hdr}\n{}:{} {}", p.file, p.line, p.msg));
        }
        (_, Err(p)) => obs.inconclusive(format!("analysis of the flattened text panicked (C03): {}", p.site())),
        (Ok(a), Ok(f)) => {
            if f.syntax_errors || a.syntax_errors {
                obs.inconclusive("syntax errors in a generated file");
            } else {
                // which copy was read: the symbol table identifies it
                if a.symbols != f.symbols {
                    let da: Vec<&String> = a.symbols.iter().map(|s| &s.0).filter(|n| n.starts_with("v_f") || n.starts_with("w_f")).collect();
                    let df: Vec<&String> = f.symbols.iter().map(|s| &s.0).filter(|n| n.starts_with("v_f") || n.starts_with("w_f")).collect();
                    let clause = if da != df { "wrong-file-resolved-or-wrong-order" } else { "symbol-table-differs" };
                    obs.violate(cell(clause), format!("{detail_hdr}\nsymbols from includes: {da:?}\nexpected (flattened text): {df:?}"));
                } else if a.program_dbg != f.program_dbg {
                    obs.violate(cell("graph-differs-from-flattened-text"), format!("{detail_hdr}\n{} statements vs {}", a.nstmts, f.nstmts));
                }
                // diagnostics: same kinds (as multisets; the lists are split per file), plus one
                // file diagnostic per include that could not be read
                let mut ka: Vec<String> = a.kinds.iter().filter(|k| !matches!(k.as_str(), "FileNotFound" | "IOError" | "PermissionDenied" | "IsADirectory")).cloned().collect();
                let mut kf = f.kinds.clone();
                ka.sort();
                kf.sort();
                if ka != kf {
                    obs.violate(cell("diagnostics-differ-from-flattened-text"), format!("{detail_hdr}\n{ka:?}\nvs flattened {kf:?}"));
                }
                let n_file_diags = a.kinds.iter().filter(|k| matches!(k.as_str(), "FileNotFound" | "IOError" | "PermissionDenied" | "IsADirectory")).count();
                if n_file_diags != missing.len() {
                    obs.violate(cell("unreadable-include-not-reported-once"), format!("{detail_hdr}\n{n_file_diags} file diagnostics, unreadable includes: {missing:?}"));
                }
                if !a.file_not_found_ranges_ok {
                    obs.violate(cell("file-diagnostic-not-on-path-node"), detail_hdr.clone());
                }
                // tags: the lists of included files carry the canonical path of the file read, in order
                let tagged: Vec<PathBuf> = a.tags.iter().map(|t| t.0.clone()).filter(|p| p.is_absolute() && p.is_file()).collect();
                let want: Vec<PathBuf> = read.iter().map(|p| std::fs::canonicalize(p).unwrap_or(p.clone())).collect();
                if tagged != want {
                    obs.violate(cell("diagnostic-lists-not-tagged-with-included-paths"), format!("{detail_hdr}\ntags {tagged:?}\nfiles read (pre-order) {want:?}"));
                }
                // the library that is provided without any file: every gate with its arity
                if flat.lines().any(|l| l.trim_start().starts_with("include \"stdgates.inc\";")) {
                    for (n, np, nq) in crate::model_resolve::STDGATES {
                        let want = format!("Gate({np}, {nq})");
                        match a.symbols.iter().find(|s| s.0 == *n) {
                            Some(s) if s.1 == want => {}
                            other => {
                                obs.violate(cell("stdgates-library-gate-wrong-or-missing"), format!("{detail_hdr}\ngate {n}: {other:?}, the library has {want}"));
                                break;
                            }
                        }
                    }
                    obs.class("stdgates-library-checked");
                }
                if a.symbols.iter().any(|s| s.0 == "this_file_must_not_be_read") {
                    obs.violate(cell("stdgates-read-from-a-file"), detail_hdr.clone());
                }
                obs.class(&format!("entry:{}", ["string+list", "file+list", "file+env", "string+env"][lay.entry]));
                if !missing.is_empty() {
                    obs.class("unreadable-include");
                }
                if read.len() >= 2 {
                    obs.class("several-files-read");
                }
                let multi = (0..lay.nfiles).any(|f| lay.presence[f].iter().filter(|p| **p == Presence::File).count() >= 2);
                if multi {
                    obs.class("file-in-several-directories");
                }
                if lay.includes_in_main.iter().any(|i| i.1) {
                    obs.class("absolute-path");
                }
                obs.note = format!("{}: read {:?}, missing {missing:?}; equals the analysis of the flattened text ({} statements, {} symbols)", lay.class, read.iter().map(|p| p.strip_prefix(&lay.root).unwrap_or(p).display().to_string()).collect::<Vec<_>>(), a.nstmts, a.symbols.len());
            }
        }
    }
    let _ = lay.content.len();
    let _ = std::fs::remove_dir_all(&lay.root);
    obs.done(true);
}

impl Property for C18 {
    fn id(&self) -> &'static str {
        "C18"
    }
    fn rule(&self) -> &'static str {
        "Per case a scratch directory tree: 1-3 search directories, 1-4 include files, each present in none / one / several directories (or as a directory of that name) with a uniquely named declaration per copy, nested includes up to depth 3 (no cycles), absolute and relative paths, missing files, an include below global scope, a decoy file named stdgates.inc; the search list is a permutation of a subset of the directories, given explicitly or through QASM3_PATH; entry points parse_source_string_with_path_search, parse_source_file_with_search, parse_source_file, parse_source_string. Oracle: the harness resolves the search list itself, flattens the includes textually and analyses the flattened text with the same code; symbol tables (name, type, order) and graphs must be equal, diagnostic kinds equal as multisets, one file diagnostic per unreadable include located on the path string, diagnostic lists of included files tagged with the canonical paths of the files read in pre-order, no panic. Non-trivial: all. Distinct: layout seed."
    }
    fn streams(&self, tier: Tier, seed: u64) -> Vec<Stream> {
        vec![Stream::new("include-layouts", tier.pick(2_500, 60_000), false, move |i| format!("lay:{}", mix(&[seed, 0xC18, i])))]
    }
    fn check(&self, input: &str, obs: &mut Obs) {
        if let Some(rest) = input.strip_prefix("lay:") {
            check_layout(rest.parse().unwrap_or(0), obs);
            return;
        }
        obs.inconclusive("unrecognised input spec");
    }
    fn mandatory_classes(&self, _tier: Tier) -> Vec<&'static str> {
        vec!["entry:string+list", "entry:file+list", "entry:file+env", "entry:string+env", "unreadable-include", "several-files-read", "file-in-several-directories", "absolute-path"]
    }
}

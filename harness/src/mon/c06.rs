//! C06 — the semantic graph preserves the program's structure, order and operators.

use super::asgcmp::Walk;
use super::semcommon::*;
use crate::gen::modelgen::{GenCfg, MG};
use crate::model::*;
use crate::model_shrink::*;
use crate::rng::{mix, Rng};
use crate::worker::{guard, Obs, Property, Stream, Tier};

pub struct C06;

enum Out {
    Same(usize),
    Differs(String, String),
    Inconclusive(String),
}

fn compare(prog: &[S], seed: u64) -> (Out, String) {
    let mut nodes = 0;
    let mut text0 = String::new();
    for dense in [false, true] {
        let lay = sem_layout(seed, dense);
        match analyse(prog, &lay) {
            Err(AErr::Rejected(m)) => return (Out::Inconclusive(format!("rejected by the parser (C04): {m}")), print_program(prog, &lay).text),
            Err(AErr::Panic(site, _)) => return (Out::Inconclusive(format!("analysis panicked (C03): {site}")), print_program(prog, &lay).text),
            Ok(a) => {
                if text0.is_empty() {
                    text0 = a.printed.text.clone();
                }
                let r = guard(|| {
                    let mut w = Walk::default();
                    let r = w.program(prog, a.res.program());
                    (r, w.nodes)
                });
                match r {
                    Ok((Ok(()), n)) => nodes = n,
                    Ok((Err((role, d)), _)) => return (Out::Differs(role, d), a.printed.text),
                    Err(p) => return (Out::Differs(format!("walker-panic/{}", p.site()), p.msg), a.printed.text),
                }
            }
        }
    }
    (Out::Same(nodes), text0)
}

fn innermost(role: &str) -> &str {
    role.rsplit('>').next().unwrap_or(role)
}

pub fn check_program(prog: &[S], seed: u64, stream: &str, obs: &mut Obs) {
    obs.fp.str(&skel_program(prog));
    for s in prog {
        obs.count(&format!("stmt:{}", stmt_kind_name(&s.k)));
    }
    match compare(prog, seed) {
        (Out::Same(n), text) => {
            obs.count_n("graph-nodes-compared", n as u64);
            obs.note = format!("{:?}: {n} graph nodes equal to the program's structure under 2 layouts", crate::worker::truncate(text.trim(), 200));
            obs.done(n >= 3);
        }
        (Out::Inconclusive(why), _) => {
            obs.count(&format!("inconclusive:{}", why.split(':').next().unwrap_or("")));
            obs.inconclusive(why);
        }
        (Out::Differs(role0, _), _) => {
            let key = innermost(&role0).to_string();
            let mut pred = |p: &[S]| matches!(compare(p, seed), (Out::Differs(r, _), _) if innermost(&r) == key);
            let min = shrink_program(prog, &mut pred, 800);
            let (role, d, text) = match compare(&min, seed) {
                (Out::Differs(r, d), t) => (r, d, t),
                _ => (role0.clone(), String::new(), String::new()),
            };
            obs.violate(format!("{}/{}", innermost(&role), skel_program(&min)), format!("[{stream}] {:?}: role {role}: {d}", text.trim()));
            obs.done(true);
        }
    }
}

/// Targeted tables: operators, literal classes, annotations, pragma, nesting combinations.
fn table_case(g: &mut MG, i: u64) -> Vec<S> {
    let nb = ALL_BINOPS.len() as u64;
    if i < nb {
        // every binary operator in an initializer
        let op = ALL_BINOPS[i as usize];
        let (a, b) = (g.ident(), g.ident());
        let e = g.e(EK::Binary(op, Box::new(a), Box::new(b)));
        return vec![g.s(SK::Decl(false, MTy::new(Base::Float, Some(64)), "v".into(), Some(e)))];
    }
    let i = i - nb;
    if i < 3 {
        let op = [UnOp::Neg, UnOp::BitNot, UnOp::Not][i as usize];
        let a = g.ident();
        let e = g.e(EK::Unary(op, Box::new(a)));
        return vec![g.s(SK::Decl(false, MTy::new(Base::Int, None), "v".into(), Some(e)))];
    }
    let i = i - 3;
    if i < 4 {
        // annotations: top level (0: before a statement; 1: two annotations), inside a block (2), trailing (3)
        let d = g.decl();
        let d2 = g.decl();
        let a1 = g.s(SK::Annotation("first one".into()));
        let a2 = g.s(SK::Annotation("second two".into()));
        return match i {
            0 => vec![d2, a1, d],
            1 => vec![a1, a2, d, d2],
            2 => {
                let c = g.ident();
                vec![g.s(SK::If(c, Body::Block(vec![a1, d]), None)), d2]
            }
            _ => vec![d, a1, d2, a2, g.s(SK::Break)],
        };
    }
    let i = i - 4;
    // pragma text, include position, measure forms
    match i {
        0 => vec![g.s(SK::Pragma("exact  text; with // stuff".into())), g.decl()],
        1 => {
            let inc = g.s(SK::Include("stdgates.inc".into()));
            let d = g.decl();
            let c = g.gate_call();
            vec![d, inc, c]
        }
        2 => {
            let q = g.operand();
            let m = g.e(EK::Measure(Box::new(q)));
            vec![g.s(SK::Decl(false, MTy::new(Base::Bit, None), "m".into(), Some(m)))]
        }
        3 => {
            let q = g.operand();
            let t = g.ident();
            let m = g.e(EK::Measure(Box::new(q)));
            vec![g.s(SK::Assign(t, None, m))]
        }
        // set expressions keep every element, equal neighbours included
        6 | 7 => {
            let mk = |g: &mut MG, t: &str| if i == 6 { g.e(EK::Int(t.into())) } else { g.e(EK::Ident(t.into())) };
            let names: [&str; 4] = if i == 6 { ["1", "1", "2", "2"] } else { ["b", "a", "a", "b"] };
            let es: Vec<E> = names.iter().map(|t| mk(g, t)).collect();
            let body = Body::Block(vec![g.s(SK::Break)]);
            vec![g.s(SK::For(MTy::new(Base::Int, None), "lv".into(), Iterable::Set(es), body))]
        }
        8 => {
            let b = g.ident();
            let es: Vec<E> = ["0", "0", "3"].iter().map(|t| g.e(EK::Int((*t).into()))).collect();
            let ix = g.e(EK::Index(Box::new(b), vec![MIndex::Set(es)]));
            vec![g.s(SK::ExprStmt(ix))]
        }
        // alias declarations: first statement of the file (4) and inside a block (5)
        k => {
            let q = g.operand();
            let q2 = g.operand();
            let rhs = g.e(EK::Binary(BinOp::Concat, Box::new(q), Box::new(q2)));
            let n = g.name();
            let al = g.s(SK::Alias(n, rhs));
            if k == 4 {
                vec![al, g.decl()]
            } else {
                let c = g.ident();
                vec![g.s(SK::If(c, Body::Block(vec![al]), None))]
            }
        }
    }
}

const N_TABLE: u64 = 19 + 3 + 4 + 4 + 2 + 3;

/// Literal spellings at the corners of the lexical grammar (zero mantissas, both exponent markers,
/// bare and leading dots, leading zeros): the graph holds a literal of the class of the spelling.
const FLOAT_SPELLINGS: &[&str] = &["0E3", "0e3", "0E-2", "0e+0", "0.E3", "0.e-1", "00E3", "1E3", "1e0", ".5", "5.", "0.", ".0", "00.5e1", "1_0.5E1_0", "0_0.0"];
const INT_SPELLINGS: &[&str] = &["0", "00", "007", "0_0", "0x0", "0X0", "0b0", "0B1", "0o0", "0O7", "0x1E3", "0xE", "1_0"];

fn literal_spelling_case(g: &mut MG, i: u64) -> Vec<S> {
    let nf = FLOAT_SPELLINGS.len() as u64;
    let ni = INT_SPELLINGS.len() as u64;
    let k = i % (nf + ni);
    let pos = i / (nf + ni);
    let (lit, ty) = if k < nf { (g.e(EK::Float(FLOAT_SPELLINGS[k as usize].to_string())), MTy::new(Base::Float, Some(64))) } else { (g.e(EK::Int(INT_SPELLINGS[(k - nf) as usize].to_string())), MTy::new(Base::Int, Some(32))) };
    match pos {
        0 => vec![g.s(SK::Decl(false, ty, "v".into(), Some(lit)))],
        1 => {
            let d = g.s(SK::Decl(false, ty, "v".into(), None));
            let t = g.e(EK::Ident("v".into()));
            vec![d, g.s(SK::Assign(t, None, lit))]
        }
        _ => {
            // as the right operand of a binary operator (a sign of the exponent must not become an operator)
            let a = g.e(EK::Ident("w".into()));
            let d0 = g.s(SK::Decl(false, ty.clone(), "w".into(), None));
            let e = g.e(EK::Binary(BinOp::Mul, Box::new(a), Box::new(lit)));
            vec![d0, g.s(SK::Decl(false, ty, "v".into(), Some(e)))]
        }
    }
}

impl Property for C06 {
    fn id(&self) -> &'static str {
        "C06"
    }
    fn rule(&self) -> &'static str {
        "Model programs (all statement kinds nested to depth 4-5, block and single-statement bodies in every combination, every leaf a distinct identifier or literal) are printed under a sparse and a dense-trivia layout and analysed; a walker over the public accessors of asg::{Stmt, Expr, Block, If, While, ForStmt, SwitchCaseStmt, CaseExpr, GateCall, GateDefinition, DefStmt, BinaryExpr, UnaryExpr, Cast, …} compares the graph node by node with the structure of the program (implicit casts skipped, explicit casts required, annotations attached to the following statement, pragma text, include expansion position, operand/argument/index/modifier order, operator identity, literal class). Streams: operator/annotation/pragma tables; the C05 role tables; random programs in the `avoid` profile (constructs that die at recorded C03 panic sites or are recorded C06 findings are not emitted) and a `full`-profile stream for breadth. Programs that the parser rejects or whose analysis panics are inconclusive. Non-trivial: >= 3 graph nodes compared. Distinct: program skeleton."
    }
    fn streams(&self, tier: Tier, seed: u64) -> Vec<Stream> {
        vec![
            Stream::new("operator-annotation-pragma-tables", N_TABLE, true, |i| format!("table:{i}")),
            Stream::new("literal-spellings", (FLOAT_SPELLINGS.len() + INT_SPELLINGS.len()) as u64 * 3, true, |i| format!("lits:{i}")),
            Stream::new("random-programs-avoid-profile", tier.pick(25_000, 1_200_000), false, move |i| format!("rand:avoid:{}", mix(&[seed, 0xC06, 1, i]))),
            Stream::new("random-programs-deep", tier.pick(3_000, 150_000), false, move |i| format!("rand:deep:{}", mix(&[seed, 0xC06, 2, i]))),
        ]
    }
    fn check(&self, input: &str, obs: &mut Obs) {
        let parts: Vec<&str> = input.split(':').collect();
        match parts[0] {
            "lits" => {
                let i: u64 = parts[1].parse().unwrap_or(0);
                let mut r = Rng::new(mix(&[0xC06, 10, i]));
                let mut g = MG::new(&mut r, GenCfg { unique_leaves: true, ..GenCfg::semantic() });
                let prog = literal_spelling_case(&mut g, i);
                obs.class("table");
                check_program(&prog, i, "literal-spelling", obs);
            }
            "table" => {
                let i: u64 = parts[1].parse().unwrap_or(0);
                let mut r = Rng::new(mix(&[0xC06, 9, i]));
                let mut g = MG::new(&mut r, GenCfg { unique_leaves: true, ..GenCfg::semantic() });
                let prog = table_case(&mut g, i);
                obs.class("table");
                check_program(&prog, i, "table", obs);
            }
            "rand" => {
                let seed: u64 = parts[2].parse().unwrap_or(0);
                let mut r = Rng::new(seed);
                let deep = parts[1] == "deep";
                let cfg = GenCfg { unique_leaves: true, max_depth: if deep { 5 } else { 3 }, max_stmts: if deep { 10 } else { 5 }, ..GenCfg::semantic() };
                let mut g = MG::new(&mut r, cfg);
                let prog = g.program();
                obs.class("random");
                check_program(&prog, seed, parts[1], obs);
            }
            _ => obs.inconclusive("unrecognised input spec"),
        }
    }
    fn mandatory_classes(&self, _tier: Tier) -> Vec<&'static str> {
        vec!["table", "random"]
    }
}

//! C03 — semantic analysis returns normally on every syntax-error-free program.

use super::common;
use crate::gen::{programs, strings};
use crate::rng::{mix, Rng};
use crate::worker::{guard, Obs, Property, Stream, Tier};
use oq3_semantics::asg;
use oq3_semantics::symbols::SymbolIdResult;
use oq3_semantics::syntax_to_semantics::parse_source_string;
use oq3_syntax::SourceFile;

pub struct C03;

/// Walk the whole graph: Debug-render every statement and index every SymbolId found in it.
fn walk_result(program: &asg::Program, table: &oq3_semantics::symbols::SymbolTable) -> (usize, usize) {
    let mut ids: Vec<SymbolIdResult> = Vec::new();
    let text = format!("{:?}", program.stmts());
    // every `SymbolId(n)` in the rendering must index the table
    let mut n_ids = 0;
    let mut rest = text.as_str();
    while let Some(p) = rest.find("SymbolId(") {
        rest = &rest[p + 9..];
        let end = rest.find(')').unwrap_or(0);
        if let Ok(n) = rest[..end].parse::<usize>() {
            let id = table.verif_symbol_id(n);
            let _ = table[&id].name();
            n_ids += 1;
        }
    }
    ids.clear();
    (program.stmts().len(), n_ids)
}

// ---------------------------------------------------------------- trigger attribution
//
// Three lenient spots of the lexer/parser let text through that no later stage can translate, and
// the analysis then panics at whatever `unwrap()` happens to meet it: the set of panic sites of one
// such trigger is open-ended.  A panic is attributed to a trigger only by *repair*: the trigger is
// rewritten away (nothing else changes) and the analysis is run again; if the panic at that site
// is gone, the trigger was necessary for it and the cell becomes `trigger:<class>/<site>`.
// Otherwise the cell is the bare panic site.  A different panic of the repaired program is reported
// as a violation of its own.

fn scan_number(text: &str, float: bool) -> usize {
    let b = text.as_bytes();
    let mut i = 0;
    if !float && b.len() >= 2 && b[0] == b'0' && matches!(b[1], b'b' | b'B' | b'o' | b'O' | b'x' | b'X') {
        let radix = match b[1] {
            b'b' | b'B' => 2,
            b'o' | b'O' => 8,
            _ => 16,
        };
        i = 2;
        while i < b.len() && ((b[i] as char).is_digit(radix) || b[i] == b'_') {
            i += 1;
        }
        // a prefix without any valid digit is no number at all
        return if b[2..i].iter().any(|c| *c != b'_') { i } else { 0 };
    }
    while i < b.len() && (b[i].is_ascii_digit() || b[i] == b'_') {
        i += 1;
    }
    if float {
        if i < b.len() && b[i] == b'.' {
            i += 1;
            while i < b.len() && (b[i].is_ascii_digit() || b[i] == b'_') {
                i += 1;
            }
        }
        if i < b.len() && (b[i] == b'e' || b[i] == b'E') {
            let mut j = i + 1;
            if j < b.len() && (b[j] == b'+' || b[j] == b'-') {
                j += 1;
            }
            let d0 = j;
            while j < b.len() && (b[j].is_ascii_digit() || b[j] == b'_') {
                j += 1;
            }
            if j > d0 {
                i = j;
            }
        }
    }
    i
}

fn int_overflows_u128(text: &str) -> bool {
    let t = text.replace('_', "");
    let (radix, digits) = match t.get(..2) {
        Some("0b") | Some("0B") => (2, &t[2..]),
        Some("0o") | Some("0O") => (8, &t[2..]),
        Some("0x") | Some("0X") => (16, &t[2..]),
        _ => (10, t.as_str()),
    };
    // judge the longest valid prefix (`0o7778` is `0o777` with a glued suffix)
    let digits: String = digits.chars().take_while(|c| c.is_digit(radix)).collect();
    !digits.is_empty() && u128::from_str_radix(&digits, radix).is_err()
}

/// The source with every occurrence of the trigger rewritten away, or None when it has none.
fn repair(s: &str, class: &str) -> Option<String> {
    use oq3_syntax::ast::AstNode;
    use oq3_syntax::SyntaxKind::{FLOAT_NUMBER, INT_NUMBER, TUPLE_EXPR};
    let parse = SourceFile::parse(s);
    let root = parse.tree();
    let mut edits: Vec<(usize, usize, String)> = Vec::new();
    for el in root.syntax().descendants_with_tokens() {
        let r = el.text_range();
        let (a, b) = (usize::from(r.start()), usize::from(r.end()));
        match class {
            "empty-parentheses" => {
                if let Some(n) = el.as_node() {
                    if n.kind() == TUPLE_EXPR && n.children().count() == 0 {
                        edits.push((a, b, "(0)".to_string()));
                    }
                }
            }
            "block-in-parentheses" => {
                // `while ({}) …`, `x = ({});`: a block where an expression is expected
                if let Some(n) = el.as_node() {
                    if n.kind() == oq3_syntax::SyntaxKind::BLOCK_EXPR {
                        let mut prev = n.prev_sibling_or_token();
                        while let Some(p) = &prev {
                            if p.kind().is_trivia() {
                                prev = p.prev_sibling_or_token();
                            } else {
                                break;
                            }
                        }
                        if prev.map(|p| p.kind() == oq3_syntax::SyntaxKind::L_PAREN).unwrap_or(false) {
                            edits.push((a, b, "0".to_string()));
                        }
                    }
                }
            }
            "numeric-literal-suffix" => {
                if let Some(t) = el.as_token() {
                    if t.kind() == FLOAT_NUMBER || t.kind() == INT_NUMBER {
                        let n = scan_number(t.text(), t.kind() == FLOAT_NUMBER);
                        if n < t.text().len() {
                            edits.push((a, b, if n == 0 { "1".to_string() } else { t.text()[..n].to_string() }));
                        }
                    }
                }
            }
            "integer-literal-beyond-u128" => {
                if let Some(t) = el.as_token() {
                    if t.kind() == INT_NUMBER && int_overflows_u128(t.text()) {
                        edits.push((a, b, "1".to_string()));
                    }
                }
            }
            _ => {}
        }
    }
    if edits.is_empty() {
        return None;
    }
    // keep outermost edits only (a block in parentheses may contain another one)
    edits.sort_by(|x, y| x.0.cmp(&y.0).then(y.1.cmp(&x.1)));
    let mut outer: Vec<(usize, usize, String)> = Vec::new();
    for e in edits {
        if outer.last().map(|l| e.0 >= l.1).unwrap_or(true) {
            outer.push(e);
        }
    }
    let mut out = s.to_string();
    for (a, b, t) in outer.into_iter().rev() {
        out.replace_range(a..b, &t);
    }
    Some(out)
}

pub const TRIGGERS: &[&str] = &["empty-parentheses", "block-in-parentheses", "numeric-literal-suffix", "integer-literal-beyond-u128"];

/// Returns the cell for a panic at `site` on `s`, and a residual panic of the repaired program.
fn attribute_trigger(s: &str, site: &str) -> (String, Option<(String, String, String)>) {
    for class in TRIGGERS {
        let Ok(Some(rep)) = guard(|| repair(s, class)) else { continue };
        if rep == s {
            continue;
        }
        let clean = guard(|| {
            let p = SourceFile::parse_check_lex(&rep);
            p.have_parse() && p.errors().is_empty()
        });
        if !matches!(clean, Ok(true)) {
            continue;
        }
        let r = guard(|| {
            let res = parse_source_string(&rep, Some("c03.qasm"));
            let _ = walk_result(res.program(), res.symbol_table());
        });
        match r {
            Ok(()) => return (format!("trigger:{class}/{site}"), None),
            Err(p2) if p2.site() != site => {
                // attribute the residual panic in turn (it may hang on another trigger)
                let (rcell, _) = attribute_trigger(&rep, &p2.site());
                return (format!("trigger:{class}/{site}"), Some((rep, rcell, format!("{}:{} {}", p2.file, p2.line, p2.msg))));
            }
            Err(_) => {}
        }
    }
    // several triggers at once: rewrite them away one class after the other
    let mut cur = s.to_string();
    for class in TRIGGERS {
        let Ok(Some(rep)) = guard(|| repair(&cur, class)) else { continue };
        if rep == cur {
            continue;
        }
        cur = rep;
        let clean = guard(|| {
            let p = SourceFile::parse_check_lex(&cur);
            p.have_parse() && p.errors().is_empty()
        });
        if !matches!(clean, Ok(true)) {
            continue;
        }
        let r = guard(|| {
            let res = parse_source_string(&cur, Some("c03.qasm"));
            let _ = walk_result(res.program(), res.symbol_table());
        });
        match r {
            Ok(()) => return (format!("trigger:{class}/{site}"), None),
            Err(p2) if p2.site() != site => {
                return (format!("trigger:{class}/{site}"), Some((cur.clone(), p2.site(), format!("{}:{} {}", p2.file, p2.line, p2.msg))));
            }
            Err(_) => {}
        }
    }
    (site.to_string(), None)
}

pub fn check_source(s: &str, obs: &mut Obs, require_clean: bool) {
    obs.fp.u64(0xC03);
    // precondition: parses without diagnostics
    let clean = guard(|| {
        let p = SourceFile::parse_check_lex(s);
        p.have_parse() && p.errors().is_empty()
    });
    match clean {
        Ok(true) => {}
        Ok(false) => {
            if require_clean {
                obs.inconclusive("precondition: source has syntax diagnostics");
            } else {
                obs.count("skipped:syntax-diagnostics");
                obs.done(false);
            }
            return;
        }
        Err(p) => {
            obs.inconclusive(format!("parse panicked (C01): {}", p.site()));
            return;
        }
    }
    let r = guard(|| {
        let res = parse_source_string(s, Some("c03.qasm"));
        let depth = res.symbol_table().verif_scope_depth();
        let (nst, nids) = walk_result(res.program(), res.symbol_table());
        let nerr = res.semantic_errors().len();
        let kinds: Vec<String> = res.semantic_errors().iter().map(|e| format!("{:?}", e.kind()).split('(').next().unwrap().to_string()).collect();
        (depth, nst, nids, nerr, kinds, res.any_syntax_errors())
    });
    match r {
        Err(p) => {
            let site = p.site();
            let (cell, residual) = attribute_trigger(s, &site);
            obs.violate(cell, format!("{s:?}: {}:{} {}", p.file, p.line, p.msg));
            if let Some((rep, rsite, rdetail)) = residual {
                // the repaired program still panics, elsewhere: its own violation, never masked
                obs.violate(rsite, format!("{rep:?}: {rdetail}"));
            }
            obs.done(true);
        }
        Ok((depth, nst, nids, nerr, kinds, synerr)) => {
            if synerr {
                // e.g. an included file with syntax errors: analysis legitimately did not run
                obs.count("analysis-gated-by-syntax-errors");
            }
            if depth != 1 {
                obs.violate("scope-stack-not-restored", format!("{s:?}: {depth} scopes open after analysis"));
            }
            for k in &kinds {
                obs.count(&format!("diag:{k}"));
                obs.fp.str(k);
            }
            if nerr > 0 {
                obs.class("semantic-diagnostics-reported");
            }
            if kinds.iter().any(|k| k == "NotImplementedError") {
                obs.class("unsupported-construct-diagnosed");
            }
            obs.fp.u64(nst as u64);
            obs.fp.u64(nids as u64);
            obs.count_n("asg-statements-walked", nst as u64);
            obs.count_n("symbol-ids-indexed", nids as u64);
            obs.note = format!("{nst} statements, {nerr} semantic diagnostics, scope depth {depth}");
            obs.done(nst + nerr >= 2);
        }
    }
}

/// The same program with comments between some of its tokens (the analysis reads typed accessors
/// that must not be confused by trivia inside an expression or a statement).
fn with_comments(r: &mut Rng, src: &str) -> String {
    if !r.chance(1, 3) {
        return src.to_string();
    }
    let mut out = String::new();
    for line in src.split_inclusive('\n') {
        let t = line.trim_start();
        // line-oriented lexemes keep their text verbatim; a quoted string is not split
        if t.starts_with("pragma") || t.starts_with('#') || t.starts_with('@') || t.starts_with("//") || line.contains('"') || line.contains('\'') {
            out.push_str(line);
            continue;
        }
        for c in line.chars() {
            if c == ' ' && r.chance(1, 3) {
                out.push_str(*r.pick(&[" /* c */ ", " /**/ ", " // c\n ", "/* left */ ", " /* right */"]));
            } else {
                out.push(c);
            }
        }
    }
    out
}

/// Programs of the *supported* subset (the model generator's `avoid` profile never emits a construct
/// whose analysis dies at a recorded panic site), printed under a random layout: here every panic is
/// a violation, whatever its site - the cell carries the prefix `supported-subset/`, which no
/// recorded finding lists.
fn supported_subset_case(seed: u64, obs: &mut Obs) {
    use super::semcommon::{analyse_text, AErr};
    use crate::gen::modelgen::{GenCfg, MG};
    use crate::model::{print_program, Layout, Trivia};
    let mut r = Rng::new(seed);
    let prog = {
        let mut g = MG::new(&mut r, GenCfg { max_stmts: 6, ..GenCfg::semantic() });
        g.program()
    };
    let lay = Layout {
        trivia: *r.pick(&[Trivia::Sparse, Trivia::Dense, Trivia::Dense, Trivia::Lines, Trivia::Tight]),
        redundant_parens: if r.bool() { 10 } else { 0 },
        paren_assign_rhs: true,
        paren_deviating: true,
        trailing_commas: 0,
        seed: mix(&[seed, 0x5eed]),
    };
    let text = print_program(&prog, &lay).text;
    obs.fp.str(&text);
    match analyse_text(&text) {
        Ok(res) => {
            let depth = res.symbol_table().verif_scope_depth();
            if depth != 1 {
                obs.violate("supported-subset/scope-stack-not-restored", format!("{text:?}: {depth} scopes open after analysis"));
            }
            let r2 = guard(|| walk_result(res.program(), res.symbol_table()));
            match r2 {
                Ok((nst, nids)) => {
                    obs.count_n("asg-statements-walked", nst as u64);
                    obs.count_n("symbol-ids-indexed", nids as u64);
                    obs.note = format!("{nst} statements of the supported subset analysed and walked");
                    obs.class("supported-subset-analysed");
                    obs.done(nst >= 1);
                }
                Err(p) => {
                    obs.violate(format!("supported-subset/walk/{}", p.site()), format!("{text:?}: {}:{} {}", p.file, p.line, p.msg));
                    obs.done(true);
                }
            }
        }
        Err(AErr::Rejected(m)) => obs.inconclusive(format!("rejected by the parser (C04): {m}")),
        Err(AErr::Panic(site, msg)) => {
            obs.violate(format!("supported-subset/{site}"), format!("{text:?}: {msg}"));
            obs.done(true);
        }
    }
}

/// The same program analysed directly and as the innermost file of an include chain whose other
/// files are empty of declarations and faults: the analysis must return in both cases and report the
/// same diagnostics (kinds as a multiset, counted over the lists of all files).
fn include_chain_case(seed: u64, obs: &mut Obs) {
    use super::semcommon::{analyse_chain, analyse_text, diag_kind, AErr};
    let mut r = Rng::new(seed);
    let src = if r.bool() { programs::faulty_program(&mut r) } else { programs::wide_program(&mut r) };
    let mids = r.usize(3);
    obs.fp.str(&src);
    obs.fp.u64(mids as u64);
    let direct = match analyse_text(&src) {
        Ok(res) => {
            let mut k: Vec<String> = res.semantic_errors().iter().map(diag_kind).collect();
            for inc in res.semantic_errors().include_errors() {
                k.extend(inc.iter().map(diag_kind));
            }
            k.sort();
            k
        }
        Err(AErr::Rejected(_)) => {
            obs.count("skipped:syntax-diagnostics");
            obs.done(false);
            return;
        }
        Err(AErr::Panic(site, _)) => {
            // decided by the direct streams (same generator, same sites)
            obs.count("skipped:direct-analysis-panics");
            let _ = site;
            obs.done(false);
            return;
        }
    };
    match analyse_chain(&src, "", mids, "c03") {
        Ok(c) => {
            let mut k: Vec<String> = c.diags.iter().map(|d| d.kind.clone()).collect();
            k.sort();
            let depth = c.res.symbol_table().verif_scope_depth();
            if depth != 1 {
                obs.violate("via-include-chain/scope-stack-not-restored", format!("{src:?} behind {mids} clean files: {depth} scopes open after analysis"));
            }
            if k != direct {
                let clause = if k.len() < direct.len() { "diagnostics-lost" } else { "diagnostics-differ" };
                obs.violate(format!("via-include-chain/{clause}/clean-files-between-{mids}"), format!("{src:?} analysed directly reports {direct:?}; as inner.inc behind {mids} clean include files the lists of all files hold {k:?}"));
            }
            if !direct.is_empty() {
                obs.class("diagnostics-of-nested-include-observed");
            }
            obs.note = format!("{} diagnostics, same directly and behind {mids} clean include files", direct.len());
            obs.done(true);
        }
        Err(AErr::Rejected(m)) => obs.inconclusive(format!("chain rejected: {m}")),
        Err(AErr::Panic(site, msg)) => {
            obs.violate(format!("via-include-chain/{site}"), format!("{src:?} analyses directly but panics as inner.inc behind {mids} clean files: {msg}"));
            obs.done(true);
        }
    }
}

impl Property for C03 {
    fn id(&self) -> &'static str {
        "C03"
    }
    fn rule(&self) -> &'static str {
        "Streams: (1) generated programs of the supported subset with injected semantic faults (undeclared, duplicate, ill-typed, wrong arity, wrong scope, const mutation); (2) programs of the wider grammar (unsupported operators, literals, blocks, arrays, calibration, box, expression designators, huge literals); (3) the clean-parsing survivors of mutated programs, token soups, punctuation runs and seed-program prefixes (inputs no generator would think of); all analysed through parse_source_string under a panic hook; afterwards the scope stack must be back to the global scope (hook H2) and the whole graph is Debug-rendered and every SymbolId in it indexed. Only sources that parse with zero diagnostics count (the others are skipped, not evaluated). Non-trivial: >= 2 statements+diagnostics. Distinct: fingerprint of (diagnostic kinds, statement count, symbol-id count)."
    }
    fn streams(&self, tier: Tier, seed: u64) -> Vec<Stream> {
        let mut v = Vec::new();
        v.push(Stream::new("fault-injected-programs", tier.pick(60_000, 3_000_000), false, move |i| {
            let mut r = Rng::new(mix(&[seed, 0xC03, 1, i]));
            let p = programs::faulty_program(&mut r);
            format!("s:{}", with_comments(&mut r, &p))
        }));
        v.push(Stream::new("wider-grammar-programs", tier.pick(40_000, 2_000_000), false, move |i| {
            let mut r = Rng::new(mix(&[seed, 0xC03, 2, i]));
            let p = programs::wide_program(&mut r);
            format!("s:{}", with_comments(&mut r, &p))
        }));
        v.push(Stream::new("supported-subset-model-programs", tier.pick(30_000, 1_500_000), false, move |i| format!("sup:{}", mix(&[seed, 0xC03, 9, i]))));
        v.push(Stream::new("programs-as-innermost-file-of-an-include-chain", tier.pick(6_000, 200_000), false, move |i| format!("ch:{}", mix(&[seed, 0xC03, 10, i]))));
        v.push(Stream::new("seed-programs", strings::seed_programs().len() as u64, true, |i| format!("s:{}", strings::seed_programs()[i as usize])));
        for st in common::string_streams(0xC03, tier, seed, tier.pick(1.0, 0.5)) {
            // survivors: sources with syntax diagnostics are skipped inside the monitor
            let name = format!("clean-survivors-of:{}", st.name);
            let g = st.gen;
            v.push(Stream {
                name,
                count: st.count,
                exhaustive: st.exhaustive,
                gen: Box::new(move |i| format!("m{}", g(i))),
            });
        }
        v
    }
    fn check(&self, input: &str, obs: &mut Obs) {
        if let Some(s) = input.strip_prefix("s:") {
            check_source(s, obs, false);
            return;
        }
        if let Some(rest) = input.strip_prefix("sup:") {
            supported_subset_case(rest.parse().unwrap_or(0), obs);
            return;
        }
        if let Some(rest) = input.strip_prefix("ch:") {
            include_chain_case(rest.parse().unwrap_or(0), obs);
            return;
        }
        if let Some(s) = input.strip_prefix("ms:") {
            check_source(s, obs, false);
            return;
        }
        obs.inconclusive("unrecognised input spec");
    }
    fn mandatory_classes(&self, _tier: Tier) -> Vec<&'static str> {
        vec!["semantic-diagnostics-reported", "unsupported-construct-diagnosed", "diagnostics-of-nested-include-observed"]
    }
}

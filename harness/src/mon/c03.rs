//! C03 — semantic analysis returns normally on every syntax-error-free program.

use super::common;
use crate::gen::{programs, strings};
use crate::rng::{mix, Rng};
use crate::worker::{guard, Obs, Property, Stream, Tier};
use oq3_semantics::asg;
use oq3_semantics::symbols::SymbolIdResult;
use oq3_semantics::syntax_to_semantics::parse_source_string;
use oq3_syntax::SourceFile;

pub struct C03;

/// Walk the whole graph: Debug-render every statement and index every SymbolId found in it.
fn walk_result(program: &asg::Program, table: &oq3_semantics::symbols::SymbolTable) -> (usize, usize) {
    let mut ids: Vec<SymbolIdResult> = Vec::new();
    let text = format!("{:?}", program.stmts());
    // every `SymbolId(n)` in the rendering must index the table
    let mut n_ids = 0;
    let mut rest = text.as_str();
    while let Some(p) = rest.find("SymbolId(") {
        rest = &rest[p + 9..];
        let end = rest.find(')').unwrap_or(0);
        if let Ok(n) = rest[..end].parse::<usize>() {
            let id = table.verif_symbol_id(n);
            let _ = table[&id].name();
            n_ids += 1;
        }
    }
    ids.clear();
    (program.stmts().len(), n_ids)
}

pub fn check_source(s: &str, obs: &mut Obs, require_clean: bool) {
    obs.fp.u64(0xC03);
    // precondition: parses without diagnostics
    let clean = guard(|| {
        let p = SourceFile::parse_check_lex(s);
        p.have_parse() && p.errors().is_empty()
    });
    match clean {
        Ok(true) => {}
        Ok(false) => {
            if require_clean {
                obs.inconclusive("precondition: source has syntax diagnostics");
            } else {
                obs.count("skipped:syntax-diagnostics");
                obs.done(false);
            }
            return;
        }
        Err(p) => {
            obs.inconclusive(format!("parse panicked (C01): {}", p.site()));
            return;
        }
    }
    let r = guard(|| {
        let res = parse_source_string(s, Some("c03.qasm"));
        let depth = res.symbol_table().verif_scope_depth();
        let (nst, nids) = walk_result(res.program(), res.symbol_table());
        let nerr = res.semantic_errors().len();
        let kinds: Vec<String> = res.semantic_errors().iter().map(|e| format!("{:?}", e.kind()).split('(').next().unwrap().to_string()).collect();
        (depth, nst, nids, nerr, kinds, res.any_syntax_errors())
    });
    match r {
        Err(p) => {
            obs.violate(p.site(), format!("{s:?}: {}:{} {}", p.file, p.line, p.msg));
            obs.done(true);
        }
        Ok((depth, nst, nids, nerr, kinds, synerr)) => {
            if synerr {
                // e.g. an included file with syntax errors: analysis legitimately did not run
                obs.count("analysis-gated-by-syntax-errors");
            }
            if depth != 1 {
                obs.violate("scope-stack-not-restored", format!("{s:?}: {depth} scopes open after analysis"));
            }
            for k in &kinds {
                obs.count(&format!("diag:{k}"));
                obs.fp.str(k);
            }
            if nerr > 0 {
                obs.class("semantic-diagnostics-reported");
            }
            if kinds.iter().any(|k| k == "NotImplementedError") {
                obs.class("unsupported-construct-diagnosed");
            }
            obs.fp.u64(nst as u64);
            obs.fp.u64(nids as u64);
            obs.count_n("asg-statements-walked", nst as u64);
            obs.count_n("symbol-ids-indexed", nids as u64);
            obs.note = format!("{nst} statements, {nerr} semantic diagnostics, scope depth {depth}");
            obs.done(nst + nerr >= 2);
        }
    }
}

impl Property for C03 {
    fn id(&self) -> &'static str {
        "C03"
    }
    fn rule(&self) -> &'static str {
        "Streams: (1) generated programs of the supported subset with injected semantic faults (undeclared, duplicate, ill-typed, wrong arity, wrong scope, const mutation); (2) programs of the wider grammar (unsupported operators, literals, blocks, arrays, calibration, box, expression designators, huge literals); (3) the clean-parsing survivors of mutated programs, token soups, punctuation runs and seed-program prefixes (inputs no generator would think of); all analysed through parse_source_string under a panic hook; afterwards the scope stack must be back to the global scope (hook H2) and the whole graph is Debug-rendered and every SymbolId in it indexed. Only sources that parse with zero diagnostics count (the others are skipped, not evaluated). Non-trivial: >= 2 statements+diagnostics. Distinct: fingerprint of (diagnostic kinds, statement count, symbol-id count)."
    }
    fn streams(&self, tier: Tier, seed: u64) -> Vec<Stream> {
        let mut v = Vec::new();
        v.push(Stream::new("fault-injected-programs", tier.pick(60_000, 3_000_000), false, move |i| {
            let mut r = Rng::new(mix(&[seed, 0xC03, 1, i]));
            format!("s:{}", programs::faulty_program(&mut r))
        }));
        v.push(Stream::new("wider-grammar-programs", tier.pick(40_000, 2_000_000), false, move |i| {
            let mut r = Rng::new(mix(&[seed, 0xC03, 2, i]));
            format!("s:{}", programs::wide_program(&mut r))
        }));
        v.push(Stream::new("seed-programs", strings::seed_programs().len() as u64, true, |i| format!("s:{}", strings::seed_programs()[i as usize])));
        for st in common::string_streams(0xC03, tier, seed, tier.pick(1.0, 0.5)) {
            // survivors: sources with syntax diagnostics are skipped inside the monitor
            let name = format!("clean-survivors-of:{}", st.name);
            let g = st.gen;
            v.push(Stream {
                name,
                count: st.count,
                exhaustive: st.exhaustive,
                gen: Box::new(move |i| format!("m{}", g(i))),
            });
        }
        v
    }
    fn check(&self, input: &str, obs: &mut Obs) {
        if let Some(s) = input.strip_prefix("s:") {
            check_source(s, obs, false);
            return;
        }
        if let Some(s) = input.strip_prefix("ms:") {
            check_source(s, obs, false);
            return;
        }
        obs.inconclusive("unrecognised input spec");
    }
    fn mandatory_classes(&self, _tier: Tier) -> Vec<&'static str> {
        vec!["semantic-diagnostics-reported", "unsupported-construct-diagnosed"]
    }
}

//! C08 — expressions are typed consistently; conversions are explicit or diagnosed.
//!
//! Decision table over (context, target type, value form, value type) with tiny programs; the
//! clauses are evaluated on the observed TExpr tree with the harness's own notions of "equal up
//! to const", "kind order" and "narrowing" (taken from the property text).

use super::semcommon::*;
use crate::rng::mix;
use crate::worker::{guard, Obs, Property, Stream, Tier};
use oq3_semantics::asg::{Expr, Literal, Stmt, TExpr};
use oq3_semantics::types::{ArrayDims, Type};

pub struct C08;

const BASES: &[&str] = &["int", "uint", "float", "angle", "bool", "bit", "complex", "duration", "stretch"];
const WIDTHS: &[Option<u32>] = &[None, Some(8), Some(32), Some(64)];
const FORMS: &[&str] = &["literal", "negative-literal", "variable", "const-variable", "arithmetic", "cast", "call", "measurement", "shadowed-variable", "loop-variable", "def-parameter", "nested-shadowing-variable", "variable-into-redeclared-name"];
const CONTEXTS: &[&str] = &["declaration", "const-declaration", "assignment"];

#[derive(Clone, Copy, PartialEq, Debug)]
struct Ty {
    base: &'static str,
    width: Option<u32>,
}

fn takes_width(b: &str) -> bool {
    matches!(b, "int" | "uint" | "float" | "angle" | "bit" | "complex")
}

thread_local! {
    /// spelling of the widths in the program under construction (0,1 decimal, 2 hex, 3 octal, 4 binary)
    static WIDTH_SPELLING: std::cell::Cell<u64> = const { std::cell::Cell::new(0) };
}

fn width_text(w: u32) -> String {
    match WIDTH_SPELLING.with(|c| c.get()) % 5 {
        2 => format!("0x{w:X}"),
        3 => format!("0o{w:o}"),
        4 => format!("0b{w:b}"),
        _ => w.to_string(),
    }
}

fn text(t: Ty) -> String {
    match (t.base, t.width) {
        ("complex", Some(w)) => format!("complex[float[{}]]", width_text(w)),
        (b, Some(w)) => format!("{b}[{}]", width_text(w)),
        (b, None) => b.to_string(),
    }
}

/// Does the observed type denote `t` up to const-ness?
fn matches_up_to_const(g: &Type, t: Ty) -> bool {
    match (t.base, g) {
        ("int", Type::Int(w, _)) | ("uint", Type::UInt(w, _)) | ("float", Type::Float(w, _)) | ("angle", Type::Angle(w, _)) | ("complex", Type::Complex(w, _)) => *w == t.width,
        ("bool", Type::Bool(_)) | ("duration", Type::Duration(_)) | ("stretch", Type::Stretch(_)) => true,
        ("bit", Type::Bit(_)) => t.width.is_none(),
        ("bit", Type::BitArray(ArrayDims::D1(n), _)) => Some(*n as u32) == t.width,
        _ => false,
    }
}

fn kind_level(b: &str) -> Option<u8> {
    match b {
        "int" | "uint" => Some(0),
        "float" => Some(1),
        "complex" => Some(2),
        _ => None,
    }
}

fn width_narrows(from: Option<u32>, to: Option<u32>) -> bool {
    match (from, to) {
        (_, None) => false,
        (None, Some(_)) => true,
        (Some(a), Some(b)) => a > b,
    }
}

/// Must the conversion value -> target be diagnosed according to the property?
fn must_diagnose(target: Ty, value: Ty, form: &str, negative: bool) -> Option<&'static str> {
    let constant_value = matches!(form, "literal" | "negative-literal" | "const-variable");
    if target.base != value.base {
        // anything to or from bit, bool, duration (and stretch, the other timing type)
        for special in ["bit", "bool", "duration", "stretch"] {
            if (target.base == special) != (value.base == special) {
                return Some("to-or-from-bit-bool-duration");
            }
        }
        if (target.base == "angle") != (value.base == "angle") {
            return Some("angle-and-other-kind");
        }
        if let (Some(lt), Some(lv)) = (kind_level(target.base), kind_level(value.base)) {
            if lv > lt {
                return Some("downward-kind-change");
            }
        }
    }
    if negative && target.base == "uint" && kind_level(value.base) == Some(0) {
        return Some("negative-literal-to-unsigned");
    }
    if !constant_value && target.base == value.base && takes_width(target.base) && width_narrows(value.width, target.width) {
        return Some("width-narrowing-of-non-constant");
    }
    None
}

fn literal_for(t: Ty) -> Option<(&'static str, Ty)> {
    // literal spelling and the type of its literal class
    Some(match t.base {
        "int" | "uint" => ("5", Ty { base: "int", width: None }),
        "float" | "angle" => ("2.5", Ty { base: "float", width: None }),
        "complex" => ("2.5im", Ty { base: "complex", width: None }),
        "bool" => ("true", Ty { base: "bool", width: None }),
        "bit" => match t.width {
            None => ("\"1\"", Ty { base: "bit", width: Some(1) }),
            // (with a digit separator: the register length is the number of bits, not of characters)
            Some(8) => ("\"1010_1010\"", Ty { base: "bit", width: Some(8) }),
            _ => return None,
        },
        "duration" | "stretch" => ("10ns", Ty { base: "duration", width: None }),
        _ => return None,
    })
}

struct Case {
    src: String,
    target: Ty,
    value: Ty,
    form: &'static str,
    negative: bool,
    /// the literal class only fixes the base type, not a width
    value_width_known: bool,
    /// spelling of the literal (without sign) for the literal forms
    lit: Option<&'static str>,
    /// label of the value axis in cells
    value_label: String,
}

/// The widths of a case are written in one radix, chosen by the coordinates of the case.
fn build(ctx: &str, target: Ty, value: Ty, form: &'static str) -> Option<Case> {
    let h = mix(&[ctx.len() as u64, class_of(target).len() as u64 * 131 + target.width.unwrap_or(0) as u64, value.width.unwrap_or(1) as u64 * 7 + value.base.len() as u64, form.len() as u64 * 31 + form.as_bytes()[0] as u64]);
    WIDTH_SPELLING.with(|c| c.set(h));
    let r = build_spelled(ctx, target, value, form);
    WIDTH_SPELLING.with(|c| c.set(0));
    r
}

fn build_spelled(ctx: &str, target: Ty, value: Ty, form: &'static str) -> Option<Case> {
    let mut pre = String::new();
    // a statement wrapper for the forms whose value only exists inside a body
    let mut wrap: Option<(String, &str)> = None;
    let mut negative = false;
    let mut value_width_known = true;
    let mut vty = value;
    let mut lit = None;
    let mut int_imag_label = false;
    let expr: String = match form {
        "literal" | "negative-literal" => {
            let (l, lt) = literal_for(value)?;
            // one literal per literal class: skip the duplicates of the value-type axis
            // (complex[float[32]] stands for the integer-imaginary spelling `2im`)
            let int_imag = value.base == "complex" && value.width == Some(32);
            if value.width.is_some() && value.base != "bit" && !int_imag {
                return None;
            }
            let (l, lt) = if int_imag { ("2im", lt) } else { (l, lt) };
            lit = Some(l);
            int_imag_label = int_imag;
            if matches!(value.base, "uint" | "angle" | "stretch") {
                return None;
            }
            vty = lt;
            value_width_known = value.base == "bit";
            if form == "negative-literal" {
                if !matches!(value.base, "int" | "float" | "complex") {
                    return None;
                }
                negative = true;
                format!("-{l}")
            } else {
                l.to_string()
            }
        }
        "variable" => {
            pre.push_str(&format!("{} src;\n", text(value)));
            "src".into()
        }
        // `T src = src;` in an inner scope: the initializer still means the outer variable
        "shadowed-variable" => {
            if ctx != "declaration" {
                return None;
            }
            pre.push_str(&format!("{} src;\n", text(value)));
            "src".into()
        }
        // the loop variable of a `for` statement and a subroutine parameter are variables, not constants
        "loop-variable" => {
            if ctx == "const-declaration" {
                return None;
            }
            let iter = match value.base {
                "int" | "uint" => "[0:3]",
                "float" => "{1.0, 2.0}",
                _ => return None,
            };
            wrap = Some((format!("for {} src in {iter} {{ ", text(value)), " }"));
            "src".into()
        }
        "def-parameter" => {
            if ctx != "declaration" || value.base == "stretch" {
                return None;
            }
            wrap = Some((format!("def fp({} src) {{ ", text(value)), " }"));
            "src".into()
        }
        // a global `src` of another type, shadowed one scope down by a `src` of the value type, used two
        // scopes down: the use means the innermost enclosing declaration
        "nested-shadowing-variable" => {
            if ctx != "declaration" {
                return None;
            }
            let other = if value.base == "bool" { "int[32]" } else { "bool" };
            pre.push_str(&format!("{other} src;\n"));
            wrap = Some((format!("if (true) {{ {} src; if (true) {{ ", text(value)), " } }"));
            "src".into()
        }
        // the declared name is already bound in this scope (a redeclaration, reported as such): the
        // initializer is still an initializer and its conversion is judged like any other
        "variable-into-redeclared-name" => {
            if ctx != "declaration" {
                return None;
            }
            pre.push_str(&format!("{} src;\nbool tgt;\n", text(value)));
            "src".into()
        }
        "const-variable" => {
            let (l, _) = literal_for(value)?;
            if value.base == "bit" && !matches!(value.width, None | Some(8)) {
                return None;
            }
            pre.push_str(&format!("const {} src = {l};\n", text(value)));
            "src".into()
        }
        "arithmetic" => {
            if !matches!(value.base, "int" | "uint" | "float" | "complex" | "angle") {
                return None;
            }
            pre.push_str(&format!("{} s1;\n{} s2;\n", text(value), text(value)));
            "s1 + s2".into()
        }
        "cast" => {
            if value.base == "stretch" {
                return None;
            }
            // the operand already has the cast's target type for one target in four (a cast is a
            // cast also then), another type otherwise
            if takes_width(value.base) && value.width == Some(8) {
                pre.push_str(&format!("{} other;\n", text(value)));
            } else {
                pre.push_str("int[16] other;\n");
            }
            format!("{}(other)", text(value))
        }
        "call" => {
            pre.push_str(&format!("def fv() -> {} {{ }}\n", text(value)));
            "fv()".into()
        }
        "measurement" => {
            if value.base != "bit" {
                return None;
            }
            match value.width {
                None => pre.push_str("qubit mq;\n"),
                Some(n) => pre.push_str(&format!("qubit[{n}] mq;\n")),
            }
            "measure mq".into()
        }
        _ => return None,
    };
    let stmt = match ctx {
        "declaration" if form == "shadowed-variable" => format!("if (true) {{ {} src = {expr}; }}", text(target)),
        "declaration" => format!("{} tgt = {expr};", text(target)),
        "const-declaration" => format!("const {} tgt = {expr};", text(target)),
        _ => {
            pre.push_str(&format!("{} tgt;\n", text(target)));
            // the parser rejects a binary right-hand side (recorded C04 finding): parenthesise
            if form == "arithmetic" {
                format!("tgt = ({expr});")
            } else {
                format!("tgt = {expr};")
            }
        }
    };
    let stmt = match wrap {
        Some((open, close)) => format!("{open}{stmt}{close}"),
        None => stmt,
    };
    Some(Case {
        src: format!("{pre}{stmt}\n"),
        target,
        value: vty,
        form,
        negative,
        value_width_known,
        lit,
        value_label: if int_imag_label { "complex-int-imaginary".to_string() } else { class_of(vty) },
    })
}

fn class_of(t: Ty) -> String {
    format!("{}{}", t.base, match t.width {
        None => "".to_string(),
        Some(w) => format!("[{w}]"),
    })
}

const TYPE_DIAGS: &[&str] = &["IncompatibleTypesError", "CastError", "IncompatibleDimensionError"];

/// Walk an expression tree checking the local typing clauses (identifier, literal, cast, measure,
/// arithmetic).  Returns clause violations.
fn check_tree(e: &TExpr, table: &oq3_semantics::symbols::SymbolTable, out: &mut Vec<(String, String)>) {
    use oq3_semantics::symbols::SymbolType;
    match e.expression() {
        Expr::Identifier(Ok(id)) => {
            let st = table[id].symbol_type();
            if st != e.get_type() {
                out.push(("identifier-type-differs-from-symbol".into(), format!("{:?} vs symbol {:?}", e.get_type(), st)));
            }
        }
        Expr::Literal(l) => {
            let ok = match (l, e.get_type()) {
                (Literal::Int(_), Type::Int(_, c)) | (Literal::Float(_), Type::Float(_, c)) | (Literal::ImaginaryFloat(_), Type::Complex(_, c)) | (Literal::ImaginaryInt(_), Type::Complex(_, c)) => format!("{c:?}") == "True",
                (Literal::Bool(_), Type::Bool(c)) | (Literal::TimingIntLiteral(_), Type::Duration(c)) | (Literal::TimingFloatLiteral(_), Type::Duration(c)) => format!("{c:?}") == "True",
                (Literal::BitString(b), Type::BitArray(ArrayDims::D1(n), c)) => b.value().chars().filter(|c| *c == '0' || *c == '1').count() == *n && format!("{c:?}") == "True",
                _ => false,
            };
            if !ok {
                let class = match l {
                    Literal::Int(_) => "int",
                    Literal::Float(_) => "float",
                    Literal::ImaginaryInt(_) => "imaginary-int",
                    Literal::ImaginaryFloat(_) => "imaginary-float",
                    Literal::Bool(_) => "bool",
                    Literal::BitString(_) => "bitstring",
                    _ => "timing",
                };
                out.push((format!("literal-type/{class}"), format!("{l:?} typed {:?}", e.get_type())));
            }
        }
        Expr::Cast(c) => {
            if c.get_type() != e.get_type() {
                out.push(("cast-not-typed-with-target".into(), format!("{:?} vs {:?}", e.get_type(), c.get_type())));
            }
            check_tree(c.operand(), table, out);
        }
        Expr::MeasureExpression(m) => {
            let ok = match (m.operand().get_type(), e.get_type()) {
                (Type::Qubit | Type::HardwareQubit, Type::Bit(_)) => true,
                (Type::QubitArray(a), Type::BitArray(b, _)) => a == b,
                (Type::Undefined, _) => true,
                (t, _) if !matches!(t, Type::Qubit | Type::HardwareQubit | Type::QubitArray(_)) => true,
                _ => false,
            };
            if !ok {
                out.push(("measurement-shape".into(), format!("operand {:?}, measurement {:?}", m.operand().get_type(), e.get_type())));
            }
        }
        Expr::BinaryExpr(b) => {
            if let oq3_semantics::asg::BinaryOp::ArithOp(_) = b.op() {
                let t = e.get_type();
                for (side, o) in [("left", b.left()), ("right", b.right())] {
                    // every operand is of the expression's type, or wrapped in a cast to it
                    if o.get_type() != t {
                        out.push((format!("arithmetic-operand-not-of-common-type/{side}"), format!("expression {:?}, operand {:?}", t, o.get_type())));
                    }
                }
            }
            check_tree(b.left(), table, out);
            check_tree(b.right(), table, out);
        }
        Expr::UnaryExpr(u) => check_tree(u.operand(), table, out),
        _ => {}
    }
}

fn check_case(c: &Case, ctx: &str, obs: &mut Obs) {
    obs.fp.str(&c.src);
    let cell = |clause: &str| format!("{ctx}/{}/{}/{}/{clause}", class_of(c.target), c.form, c.value_label);
    let res = match analyse_text(&c.src) {
        Ok(r) => r,
        Err(AErr::Rejected(m)) => {
            obs.inconclusive(format!("rejected by the parser (C04): {m}"));
            return;
        }
        Err(AErr::Panic(site, _)) => {
            obs.inconclusive(format!("analysis panicked (C03): {site}"));
            return;
        }
    };
    let r = guard(|| {
        let kinds: Vec<String> = res.semantic_errors().iter().map(diag_kind).collect();
        let mut last = res.program().stmts().last().cloned();
        while let Some(Stmt::If(i)) = &last {
            last = i.then_branch().statements().last().cloned();
        }
        if let Some(Stmt::ForStmt(f)) = &last {
            last = f.loop_body().statements().last().cloned();
        }
        if let Some(Stmt::DefStmt(d)) = &last {
            last = d.block().statements().last().cloned();
        }
        let mut local = Vec::new();
        let value: Option<TExpr> = match &last {
            Some(Stmt::DeclareClassical(d)) => d.initializer().cloned(),
            Some(Stmt::Assignment(a)) => Some(a.rvalue().clone()),
            _ => None,
        };
        if let Some(v) = &value {
            check_tree(v, res.symbol_table(), &mut local);
            // a variable used as the value is the variable declared with the value type
            if matches!(c.form, "variable" | "shadowed-variable" | "nested-shadowing-variable" | "loop-variable" | "def-parameter" | "variable-into-redeclared-name") {
                let mut e = v;
                while let Expr::Cast(k) = e.expression() {
                    e = k.operand();
                }
                if let Expr::Identifier(Ok(_)) = e.expression() {
                    if !matches_up_to_const(e.get_type(), c.value) {
                        local.push(("variable-use-bound-to-another-declaration".into(), format!("the use of `src` is typed {:?}, the innermost enclosing declaration says {}", e.get_type(), text(c.value))));
                    }
                }
            }
            // the literal class is the one of the spelling in the source
            if let Some(spelling) = c.lit {
                let mut e = v;
                loop {
                    match e.expression() {
                        Expr::Cast(k) => e = k.operand(),
                        Expr::UnaryExpr(u) => e = u.operand(),
                        _ => break,
                    }
                }
                let got = match e.expression() {
                    Expr::Literal(Literal::Int(_)) => "int",
                    Expr::Literal(Literal::Float(_)) => "float",
                    Expr::Literal(Literal::ImaginaryInt(_)) => "imaginary-int",
                    Expr::Literal(Literal::ImaginaryFloat(_)) => "imaginary-float",
                    Expr::Literal(Literal::Bool(_)) => "bool",
                    Expr::Literal(Literal::BitString(_)) => "bitstring",
                    Expr::Literal(_) => "timing",
                    _ => "not-a-literal",
                };
                let want = match spelling {
                    "5" => "int",
                    "2.5" => "float",
                    "2im" => "imaginary-int",
                    "2.5im" => "imaginary-float",
                    "true" => "bool",
                    "10ns" => "timing",
                    _ => "bitstring",
                };
                if got != want {
                    local.push((format!("literal-class-differs-from-spelling/{want}"), format!("`{spelling}` became {:?}", e.expression())));
                }
            }
        }
        (kinds, value, local)
    });
    let (kinds, value, local) = match r {
        Ok(x) => x,
        Err(p) => {
            obs.inconclusive(format!("monitor panicked {}", p.site()));
            return;
        }
    };
    for (clause, d) in local {
        obs.violate(cell(&clause), format!("{:?}: {d}", c.src));
    }
    if c.form == "cast" {
        if let Some(v) = &value {
            // strip at most one implicit cast to the target, then the written cast must be there
            let inner = match v.expression() {
                Expr::Cast(k) if !matches!(k.operand().expression(), Expr::Identifier(_)) => k.operand(),
                _ => v,
            };
            let ok = match inner.expression() {
                Expr::Cast(k) => matches!(k.operand().expression(), Expr::Identifier(_)) && matches_up_to_const(k.get_type(), c.value),
                _ => false,
            };
            if !ok {
                obs.violate(cell("written-cast-missing-or-retyped"), format!("{:?}: value {:?}", c.src, crate::worker::truncate(&format!("{v:?}"), 300)));
            }
        }
    }
    let diagnosed = kinds.iter().any(|k| TYPE_DIAGS.contains(&k.as_str()));
    let Some(v) = value else {
        obs.inconclusive("statement under test not found in the graph");
        return;
    };
    let must = must_diagnose(c.target, c.value, c.form, c.negative);
    // when the literal class does not fix a width, narrowing cannot be judged
    let must = match must {
        Some("width-narrowing-of-non-constant") if !c.value_width_known => None,
        m => m,
    };
    if let Some(why) = must {
        if !diagnosed {
            obs.violate(cell(&format!("must-diagnose:{why}")), format!("{:?}: accepted silently; value {:?}; diagnostics {kinds:?}", c.src, crate::worker::truncate(&format!("{v:?}"), 200)));
        }
        obs.class("must-diagnose-case");
    } else if !diagnosed {
        // accepted: the value must end up with the target type up to const (directly or
        // through an explicit cast to exactly the target type)
        if !matches_up_to_const(v.get_type(), c.target) {
            obs.violate(cell("accepted-with-different-type-and-no-cast"), format!("{:?}: value typed {:?}, target {}; diagnostics {kinds:?}", c.src, v.get_type(), text(c.target)));
        }
        obs.class("accepted-case");
    } else {
        obs.class("diagnosed-case");
    }
    obs.note = format!("{:?}: value {:?}; diagnostics {kinds:?}", c.src.trim(), v.get_type());
    obs.done(true);
}

/// The same tiny program as the innermost file of an include chain behind clean files: the type
/// diagnostics (and every other diagnostic) must be the same as when it is analysed directly.
fn check_case_chain(c: &Case, ctx: &str, mids: usize, obs: &mut Obs) {
    obs.fp.str(&c.src);
    obs.fp.u64(mids as u64 + 77);
    let direct = match analyse_text(&c.src) {
        Ok(r) => {
            let mut k: Vec<String> = r.semantic_errors().iter().map(diag_kind).collect();
            k.sort();
            k
        }
        Err(_) => {
            obs.done(false);
            return;
        }
    };
    match analyse_chain(&c.src, "", mids, "c08") {
        Ok(ch) => {
            let mut k: Vec<String> = ch.diags.iter().map(|d| d.kind.clone()).collect();
            k.sort();
            if k != direct {
                obs.violate(
                    format!("via-include-chain/{ctx}/{}/{}/{}/diagnostics-differ", class_of(c.target), c.form, c.value_label),
                    format!("{:?} analysed directly reports {direct:?}; as inner.inc behind {mids} clean include files the lists of all files hold {k:?}", c.src),
                );
            }
            if direct.iter().any(|d| TYPE_DIAGS.contains(&d.as_str())) {
                obs.class("type-diagnostic-in-nested-include");
            }
            obs.done(true);
        }
        Err(AErr::Rejected(m)) => obs.inconclusive(format!("chain rejected: {m}")),
        Err(AErr::Panic(site, _)) => obs.inconclusive(format!("analysis panicked (C03): {site}")),
    }
}

fn all_types() -> Vec<Ty> {
    let mut v = Vec::new();
    for b in BASES {
        for w in WIDTHS {
            if w.is_some() && !takes_width(b) {
                continue;
            }
            v.push(Ty { base: b, width: *w });
        }
    }
    v
}

const ARITH: &[&str] = &["+", "-", "*", "/", "%", "<<", ">>", "&", "|", "^"];

fn check_arith(op: &str, a: Ty, b: Ty, obs: &mut Obs) {
    let src = format!("{} a1;\n{} b1;\na1 {op} b1;\n", text(a), text(b));
    obs.fp.str(&src);
    let cell = |clause: &str| format!("arithmetic/{op}/{}/{}/{clause}", class_of(a), class_of(b));
    let res = match analyse_text(&src) {
        Ok(r) => r,
        Err(AErr::Rejected(m)) => {
            obs.inconclusive(format!("rejected by the parser (C04): {m}"));
            return;
        }
        Err(AErr::Panic(site, _)) => {
            obs.inconclusive(format!("analysis panicked (C03): {site}"));
            return;
        }
    };
    let r = guard(|| {
        let mut local = Vec::new();
        let mut ty = None;
        if let Some(Stmt::ExprStmt(e)) = res.program().stmts().last() {
            check_tree(e, res.symbol_table(), &mut local);
            ty = Some(e.get_type().clone());
        }
        (local, ty, res.semantic_errors().len())
    });
    if let Ok((local, ty, nerr)) = r {
        for (clause, d) in local {
            // operands of a pair without common type are reported (diagnostic) rather than cast
            if nerr > 0 && clause.starts_with("arithmetic-operand-not-of-common-type") {
                continue;
            }
            obs.violate(cell(&clause), format!("{src:?}: {d}"));
        }
        // the common type of two tower types is an upper bound in kind (C20's lattice)
        if let (Some(la), Some(lb), Some(t)) = (kind_level(a.base), kind_level(b.base), &ty) {
            let lt = match t {
                Type::Int(..) | Type::UInt(..) => Some(0),
                Type::Float(..) => Some(1),
                Type::Complex(..) => Some(2),
                _ => None,
            };
            if let Some(lt) = lt {
                if lt < la.max(lb) {
                    obs.violate(cell("arithmetic-type-below-operand-kind"), format!("{src:?}: typed {t:?}"));
                }
            }
        }
        obs.class("arithmetic-case");
        obs.note = format!("{src:?}: typed {ty:?}");
    }
    obs.done(true);
}

impl Property for C08 {
    fn id(&self) -> &'static str {
        "C08"
    }
    fn rule(&self) -> &'static str {
        "Decision table of tiny programs: target type (9 base types x widths {none, 8, 32, 64}) x value type (same space) x value form {literal, negative literal, variable, const variable, arithmetic expression, cast, call, measurement} x context {declaration, const declaration, assignment} (the full product in both tiers), and every arithmetic operator x every ordered pair of scalar types. Clauses evaluated on the observed TExpr tree: an identifier has the type of its symbol; a literal has the type of its literal class marked const; a cast is typed with its target; a measurement has the bit shape of its operand; every operand of an arithmetic expression has the expression's type or is wrapped in a cast to it; a declaration/assignment without type diagnostic ends with a value whose type equals the target up to const; a downward kind change, negative literal to unsigned, anything to/from bit/bool/duration, angle to/from another kind and a width narrowing of a non-constant value are diagnosed. Non-trivial: all. Distinct: source text."
    }
    fn streams(&self, tier: Tier, seed: u64) -> Vec<Stream> {
        let nt = all_types().len() as u64;
        let (nf, nc) = (FORMS.len() as u64, CONTEXTS.len() as u64);
        let full = nt * nt * nf * nc;
        let na = ARITH.len() as u64;
        let mut v = Vec::new();
        // the whole decision table is small (17 496 cells, a fraction of a second): both tiers run it
        let _ = (nf, nc, seed, tier);
        v.push(Stream::new("decision-table-full-product", full, true, |i| format!("T|{i}")));
        // register lengths at the boundary between `qubit` and `qubit[n]`: measuring qubit[1] yields bit[1]
        v.push(Stream::new("measurement-register-lengths", 3 * 4 * 3, true, |i| {
            let ctx = ["declaration", "const-declaration", "assignment"][(i % 3) as usize];
            let (tb, tw) = [("bit", "-"), ("bit", "1"), ("bit", "2"), ("bit", "3")][((i / 3) % 4) as usize];
            let vw = ["1", "2", "3"][(i / 12) as usize];
            format!("S|{ctx}|{tb}|{tw}|measurement|bit|{vw}")
        }));
        // one cell in 23 of the table again, behind an include chain with clean files in between
        v.push(Stream::new("decision-table-sample-behind-include-chains", full / 23, true, |i| format!("C|{}", i * 23 + i % 23)));
        v.push(Stream::new("arithmetic-operator-x-type-pairs", na * nt * nt, true, |i| format!("A|{i}")));
        v
    }
    fn check(&self, input: &str, obs: &mut Obs) {
        let types = all_types();
        let nt = types.len() as u64;
        if let Some(rest) = input.strip_prefix("T|") {
            let mut i: u64 = rest.parse().unwrap_or(0);
            let target = types[(i % nt) as usize];
            i /= nt;
            let value = types[(i % nt) as usize];
            i /= nt;
            let form = FORMS[(i % FORMS.len() as u64) as usize];
            i /= FORMS.len() as u64;
            let ctx = CONTEXTS[(i % CONTEXTS.len() as u64) as usize];
            match build(ctx, target, value, form) {
                Some(c) => check_case(&c, ctx, obs),
                None => obs.done(false),
            }
            return;
        }
        if let Some(rest) = input.strip_prefix("C|") {
            let i0: u64 = rest.parse().unwrap_or(0);
            let mut i = i0;
            let target = types[(i % nt) as usize];
            i /= nt;
            let value = types[(i % nt) as usize];
            i /= nt;
            let form = FORMS[(i % FORMS.len() as u64) as usize];
            i /= FORMS.len() as u64;
            let ctx = CONTEXTS[(i % CONTEXTS.len() as u64) as usize];
            match build(ctx, target, value, form) {
                Some(c) => check_case_chain(&c, ctx, (i0 % 3) as usize, obs),
                None => obs.done(false),
            }
            return;
        }
        if let Some(rest) = input.strip_prefix("A|") {
            let mut i: u64 = rest.parse().unwrap_or(0);
            let op = ARITH[(i % ARITH.len() as u64) as usize];
            i /= ARITH.len() as u64;
            let a = types[(i % nt) as usize];
            let b = types[((i / nt) % nt) as usize];
            check_arith(op, a, b, obs);
            return;
        }
        if let Some(rest) = input.strip_prefix("S|") {
            // explicit: S|<ctx>|<target base>|<target width or ->|<form>|<value base>|<value width or ->
            let p: Vec<&str> = rest.split('|').collect();
            let w = |s: &str| s.parse::<u32>().ok();
            let fb = |s: &str| BASES.iter().find(|b| **b == s).copied().unwrap_or("int");
            let target = Ty { base: fb(p[1]), width: w(p[2]) };
            let value = Ty { base: fb(p[4]), width: w(p[5]) };
            let form = FORMS.iter().find(|f| **f == p[3]).copied().unwrap_or("variable");
            let ctx = CONTEXTS.iter().find(|c| **c == p[0]).copied().unwrap_or("declaration");
            match build(ctx, target, value, form) {
                Some(c) => check_case(&c, ctx, obs),
                None => obs.inconclusive("case not constructible"),
            }
            return;
        }
        obs.inconclusive("unrecognised input spec");
    }
    fn mandatory_classes(&self, _tier: Tier) -> Vec<&'static str> {
        vec!["must-diagnose-case", "accepted-case", "diagnosed-case", "arithmetic-case", "type-diagnostic-in-nested-include"]
    }
}

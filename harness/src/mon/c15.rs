//! C15 — well-formed lexemes are classified correctly regardless of neighbours and layout.

use crate::gen::lexemes::*;
use crate::rng::{mix, Rng};
use crate::worker::{guard, Obs, Property, Stream, Tier};
use oq3_parser::LexedStr;
use std::sync::OnceLock;

pub struct C15;

#[derive(Clone)]
pub struct LexClass {
    pub name: String,
    pub text: String,
    /// expected non-trivia (kind name, text) entries; empty for comments
    pub expect: Vec<(String, String)>,
    /// runs to end of line: must be followed by a line break
    pub line_terminated: bool,
}

fn lc(name: &str, text: &str, kind: &str) -> LexClass {
    LexClass {
        name: name.to_string(),
        text: text.to_string(),
        expect: vec![(kind.to_string(), text.to_string())],
        line_terminated: false,
    }
}

pub fn classes() -> &'static Vec<LexClass> {
    static C: OnceLock<Vec<LexClass>> = OnceLock::new();
    C.get_or_init(|| {
        let mut v = Vec::new();
        for k in KEYWORDS {
            // `pragma` and `dim` are not lexemes on their own (they are part of pragma lines / `#dim`).
            if *k == "pragma" || *k == "dim" {
                continue;
            }
            v.push(lc(&format!("kw:{k}"), k, &keyword_kind(k)));
        }
        for t in TYPES {
            v.push(lc(&format!("ty:{t}"), t, &type_kind(t)));
        }
        for (p, kind) in PUNCT {
            // a lone `#` is not an OpenQASM 3 lexeme (only `#pragma`, `#dim`): not demanded
            if *p == "#" {
                continue;
            }
            v.push(lc(&format!("punct:{p}"), p, kind));
        }
        v.push(lc("dim", "#dim", "DIM_KW"));
        for id in ["a", "x1", "_x1", "foo_bar", "Z", "__a", "θ", "Δx", "变量", "été", "pragmatic", "pi", "OPENQASMx", "O", "p", "pr", "dimension", "inv2", "im", "dts", "e3", "b1", "xF", "ifx", "input1", "μs", "µs", "_q", "pragma2", "pragma_1", "void1", "π", "τ",
            // characters that may continue an identifier but not start one: a combining mark (NFD spelling),
            // non-ASCII digits, the middle dot, the undertie, an Indic vowel sign
            "cafe\u{301}", "re\u{301}g", "x\u{663}", "q\u{ff11}", "col\u{b7}leccio", "a\u{203f}b", "\u{915}\u{93f}"] {
            v.push(lc(&format!("ident:{id}"), id, "IDENT"));
        }
        for h in ["$0", "$12"] {
            v.push(lc(&format!("hw:{h}"), h, "HARDWAREIDENT"));
        }
        for n in [
            "0", "12", "1_000", "007", "9_", "0b101", "0B1_0", "0b_1", "0b1_", "0o17", "0O1_7", "0o_7", "0x1F", "0Xde_ad", "0xb", "0x1e3", "0xE", "0x_f",
            "0XABCDEF", "0xabcdef", "0b0", "0o0", "0x0", "0_1", "0_0", "00", "0_", "01", "0_1_2",
        ] {
            v.push(lc(&format!("int:{n}"), n, "INT_NUMBER"));
        }
        // float shapes: the full product of integer part x fraction x exponent marker/sign
        for ip in ["", "1", "12_3", "0", "0_1", "00"] {
            for fr in ["", ".", ".5", ".2_5"] {
                for ex in ["", "e3", "E3", "e+3", "E+3", "e-3", "E-3", "e1_0", "E-1_0"] {
                    if fr.is_empty() && ex.is_empty() {
                        continue; // an integer
                    }
                    if ip.is_empty() && (fr.is_empty() || fr == ".") {
                        continue; // not a number
                    }

                    let f = format!("{ip}{fr}{ex}");
                    v.push(lc(&format!("float:{f}"), &f, "FLOAT_NUMBER"));
                }
            }
        }
        for (num, kind) in [("10", "INT_NUMBER"), ("1.5", "FLOAT_NUMBER"), ("1.", "FLOAT_NUMBER"), ("12_3.", "FLOAT_NUMBER"), (".5", "FLOAT_NUMBER"), ("1e3", "FLOAT_NUMBER"), ("0_1", "INT_NUMBER"), ("007", "INT_NUMBER"), ("0_5.25", "FLOAT_NUMBER"), ("0_1e3", "FLOAT_NUMBER")] {
            for u in UNITS.iter().chain(["im"].iter()) {
                let text = format!("{num}{u}");
                v.push(LexClass {
                    name: format!("timing:{text}"),
                    text,
                    expect: vec![(kind.to_string(), num.to_string()), ("IDENT".to_string(), u.to_string())],
                    line_terminated: false,
                });
            }
        }
        for b in ["\"0101\"", "\"0\"", "\"0_1\"", "\"1111_0000\"", "\"0_1_0\"", "\"1010_0101_1111\"", "\"1_1_1_1\"", "'0_1_0'", "'1010'"] {
            v.push(lc(&format!("bits:{b}"), b, "BIT_STRING"));
        }
        for s in ["\"abc\"", "\"a\\\"b\"", "'sq'", "\"stdgates.inc\"", "\"x y/z.qasm\"", "\"\"", "\"//\"", "\"/* x\"", "\"a'b\"", "'a\"b'", "\"01a\"", "\"0 1\"", "'a\\\\'", "'\\\\'", "\"a\\\\\"", "'it\\'s'"] {
            v.push(lc(&format!("str:{s}"), s, "STRING"));
        }
        for (i, c) in ["/* c */", "/* a /* b */ c */", "/**/", "/***/", "/*/ x */", "/*// y */", "/* * / */", "/* \" ' */", "/*\n int x; \n*/", "/** doc **/"].iter().enumerate() {
            v.push(LexClass { name: format!("comment:block{i}"), text: c.to_string(), expect: vec![], line_terminated: false });
        }
        for (i, c) in ["// c ; x", "//", "///", "// /* open", "//*/ x", "// \" unterminated"].iter().enumerate() {
            v.push(LexClass { name: format!("comment:line{i}"), text: c.to_string(), expect: vec![], line_terminated: true });
        }
        for p in ["pragma foo bar", "#pragma x y z", "pragma a; b /* c */", "pragma // x", "pragma \"q", "pragma\ttab after the keyword", "#pragma\tx", "pragma \t mixed gap", "pragma  two blanks"] {
            let mut c = lc(&format!("pragma:{p}"), p, "PRAGMA");
            c.line_terminated = true;
            v.push(c);
        }
        for a in ["@ann a b", "@reversible", "@a.b c // d", "@a /* b", "@a \"q", "@ann\ttab after the keyword", "@_internal keep [2:3]", "@_", "@_a.b_ c"] {
            let mut c = lc(&format!("annotation:{a}"), a, "ANNOTATION");
            c.line_terminated = true;
            v.push(c);
        }
        for h in ["OPENQASM 3.0", "OPENQASM 3", "OPENQASM  3.14", "OPENQASM\n3.0", "OPENQASM\t3", "OPENQASM \r\n  3.1"] {
            v.push(lc(&format!("version:{h}"), h, "VERSION_STRING"));
        }
        v
    })
}

fn identlike(c: char) -> bool {
    // letters, digits, `_`, and the characters that may continue an identifier without being
    // alphanumeric (combining marks, the middle dot, the undertie, Indic vowel signs)
    c.is_alphanumeric() || c == '_' || matches!(c, '\u{300}'..='\u{36f}' | '\u{b7}' | '\u{203f}' | '\u{2040}' | '\u{93a}'..='\u{94f}')
}

/// Would `a` immediately followed by `b` (no separator) read as different lexemes?
/// Written from the lexical grammar, not from the lexer.
fn fuses(a: &LexClass, b: &LexClass) -> bool {
    let at = a.text.as_str();
    let bt = b.text.as_str();
    let la = at.chars().last().unwrap();
    let fb = bt.chars().next().unwrap();
    if a.line_terminated {
        return true;
    }
    // identifier-like runs (identifiers, keywords, numbers, units, literal suffixes)
    if (identlike(la) || la == '"' || la == '\'') && identlike(fb) {
        return true;
    }
    // a number (or `$`, or `.`) followed by something that continues it
    let a_is_number = at.chars().next().unwrap().is_ascii_digit() || (at.starts_with('.') && at.len() > 1);
    if a_is_number && (fb == '.' || identlike(fb)) {
        return true;
    }
    if a_is_number && (la == 'e' || la == 'E') && (fb == '+' || fb == '-') {
        return true;
    }
    if (at == "." || la == '.') && fb.is_ascii_digit() {
        return true;
    }
    if at == "$" && (fb.is_ascii_digit() || identlike(fb)) {
        return true;
    }
    if at == "@" && (identlike(fb)) {
        return true;
    }
    // comment openers
    if la == '/' && (fb == '/' || fb == '*') {
        return true;
    }
    // hardware identifiers followed by identifier characters
    if at.starts_with('$') && identlike(fb) {
        return true;
    }
    // the version header must be followed by `;` or white space
    if a.name.starts_with("version:") && bt != ";" {
        return true;
    }
    // `#dim` / `#pragma` are built from `#`
    if at == "#" {
        return true;
    }
    false
}

/// (the last two: every other member of the lexer's whitespace set - vertical tab, form feed,
/// next line, left-to-right / right-to-left marks, line and paragraph separators)
pub const SEPS: &[&str] = &["", " ", "\n", " /* t */ ", " // t\n", "\t\r\n  ", "\u{000B}\u{000C}", "\u{0085}\u{200E}\u{200F}\u{2028}\u{2029}", "/*t*/"];

fn sep_text(a: &LexClass, b: &LexClass, sep: usize) -> String {
    let mut s = match sep {
        0 => {
            if fuses(a, b) {
                " ".to_string()
            } else {
                String::new()
            }
        }
        // a comment directly against both neighbours (after `/` it would start a line comment)
        8 if a.text.ends_with('/') => " /*t*/".to_string(),
        k => SEPS[k].to_string(),
    };
    if a.line_terminated && !s.starts_with('\n') {
        s = format!("\n{s}");
    }
    s
}

fn observe(text: &str) -> Result<(Vec<(String, String)>, Vec<String>), crate::worker::PanicInfo> {
    guard(|| {
        let lx = LexedStr::new(text);
        let mut toks = Vec::new();
        for i in 0..lx.len() {
            let k = lx.kind(i);
            if k.is_trivia() {
                continue;
            }
            toks.push((format!("{k:?}"), lx.text(i).to_string()));
        }
        let errs: Vec<String> = lx.errors().map(|(i, m)| format!("token {i}: {m}")).collect();
        (toks, errs)
    })
}

fn check_sequence(seq: &[usize], seps: &[usize], obs: &mut Obs) {
    let cl = classes();
    let mut text = String::new();
    let mut expected: Vec<(String, String)> = Vec::new();
    // leading trivia for some separator choices
    if seps.first().copied().unwrap_or(0) >= 3 {
        text.push_str("  ");
    }
    for (i, &ci) in seq.iter().enumerate() {
        let c = &cl[ci];
        text.push_str(&c.text);
        expected.extend(c.expect.iter().cloned());
        if i + 1 < seq.len() {
            text.push_str(&sep_text(c, &cl[seq[i + 1]], seps[i % seps.len()]));
        } else if c.line_terminated && seps[i % seps.len()] % 2 == 1 {
            text.push('\n');
        }
    }
    obs.fp.str(&text);
    let cell_of = |pos: usize| -> String {
        // (lexeme class family, right neighbour family, separator)
        let fam = |n: &str| n.split(':').next().unwrap_or("").to_string();
        let mut acc = 0usize;
        let mut best = seq.len().saturating_sub(1);
        for (i, &ci) in seq.iter().enumerate() {
            let n = cl[ci].expect.len();
            if n > 0 && pos < acc + n {
                best = i;
                break;
            }
            acc += n;
        }
        {
            let i = best;
            let c = &cl[seq[i]];
            let right = seq.get(i + 1).map(|&r| fam(&cl[r].name)).unwrap_or_else(|| "end".into());
            let sep = if i + 1 < seq.len() { seps[i % seps.len()] } else { 9 };
            return format!("{}/{}/sep{}", c.name, right, sep);
        }
        #[allow(unreachable_code)]
        "?".into()
    };
    match observe(&text) {
        Err(p) => {
            obs.violate(format!("panic/{}", p.site()), format!("{text:?}"));
        }
        Ok((toks, errs)) => {
            if !errs.is_empty() {
                obs.violate(format!("lexical-error/{}", cell_of(0)), format!("{text:?}: {errs:?}"));
            }
            let n = toks.len().min(expected.len());
            let mut bad = None;
            for i in 0..n {
                if toks[i] != expected[i] {
                    bad = Some(i);
                    break;
                }
            }
            if bad.is_none() && toks.len() != expected.len() {
                bad = Some(n);
            }
            if let Some(i) = bad {
                obs.violate(
                    format!("misclassified/{}", cell_of(i)),
                    format!("{text:?}: entry {i}: expected {:?}, table has {:?} (expected {} entries, got {})", expected.get(i), toks.get(i), expected.len(), toks.len()),
                );
            }
            // the same lexemes as the parser sees them (trivia dropped, jointness recorded): the leaves of
            // the tree are these tokens, glued into one operator only where nothing separates them
            if bad.is_none() && errs.is_empty() {
                match guard(|| super::common::leaf_token_problems(&text)) {
                    Ok(ps) => {
                        for (clause, d) in ps {
                            obs.violate(format!("parser-input/{clause}/{}", cell_of(0)), format!("{text:?}: {d}"));
                        }
                    }
                    Err(p) => obs.count(&format!("parse-panicked(C01):{}", p.site())),
                }
            }
        }
    }
    obs.done(expected.len() >= 2);
}

impl Property for C15 {
    fn id(&self) -> &'static str {
        "C15"
    }
    fn rule(&self) -> &'static str {
        "Lexeme classes from an independent table (42 keywords, 9 type names, 27 punctuations, 25 identifiers incl. Unicode and look-alikes of special cases, hardware qubits, integers in 4 radices with underscores and prefix case, float shapes, number+unit for the 6 units and im, bit strings, quoted strings, block/nested/line comments, pragma and annotation lines, version headers). Quick: all ordered pairs of classes x 8 separator choices (minimal legal, space, newline, block comment, line comment, mixed white space, vertical tab + form feed, the Unicode members of the whitespace set); thorough: additionally all ordered triples with two separator choices; plus random sequences up to length 30. Separators follow the property: line-terminated lexemes are followed by a line break, pairs that would fuse get at least one separator (fusion rules written from the lexical grammar). One evaluation = one rendered sequence: the non-trivia part of the LexedStr table must equal the generated lexemes (kind by name, exact text) with no lexical error. Non-trivial: >= 2 expected non-trivia entries. Distinct: hash of the rendered text."
    }
    fn streams(&self, tier: Tier, seed: u64) -> Vec<Stream> {
        let n = classes().len() as u64;
        let mut v = vec![Stream::new("all-ordered-pairs-x-9-separators(row per case)", n, true, |i| format!("row:{i}"))];
        if tier == Tier::Thorough {
            v.push(Stream::new("all-ordered-triples-x-2-separators(row per case)", n * n, true, |i| format!("trow:{i}")));
        }
        v.push(Stream::new("random-sequences", tier.pick(40_000, 2_000_000), false, move |i| format!("rand:{}", mix(&[seed, 0xC15, i]))));
        v
    }
    fn check(&self, input: &str, obs: &mut Obs) {
        let n = classes().len();
        if let Some(rest) = input.strip_prefix("row:") {
            let i: usize = rest.parse().unwrap();
            for j in 0..n {
                for sep in 0..SEPS.len() {
                    check_sequence(&[i, j], &[sep], obs);
                }
            }
            // single lexeme with and without trailing trivia
            check_sequence(&[i], &[0], obs);
            check_sequence(&[i], &[3], obs);
            obs.note = format!("lexeme {:?} followed by each of {n} classes under 8 separators: table equals the generated lexemes", classes()[i].text);
            return;
        }
        if let Some(rest) = input.strip_prefix("trow:") {
            let k: usize = rest.parse().unwrap();
            let (i, j) = (k / n, k % n);
            for m in 0..n {
                check_sequence(&[i, j, m], &[0, 0], obs);
                check_sequence(&[i, j, m], &[(k + m) % SEPS.len(), (k + 2 * m + 1) % SEPS.len()], obs);
            }
            obs.note = format!("({:?}, {:?}) followed by each class", classes()[i].text, classes()[j].text);
            return;
        }
        if let Some(rest) = input.strip_prefix("rand:") {
            let mut r = Rng::new(rest.parse().unwrap_or(0));
            let len = r.range(2, 30) as usize;
            let seq: Vec<usize> = (0..len).map(|_| r.usize(n)).collect();
            let seps: Vec<usize> = (0..len).map(|_| r.usize(SEPS.len())).collect();
            check_sequence(&seq, &seps, obs);
            obs.note = format!("random sequence of {len} lexemes");
            return;
        }
        if let Some(rest) = input.strip_prefix("seq:") {
            // explicit: class names separated by '|', then ';', then separator indices
            let (names, seps) = rest.split_once(";;").unwrap_or((rest, "0"));
            let cl = classes();
            let mut seq = Vec::new();
            for nm in names.split('|') {
                match cl.iter().position(|c| c.name == nm) {
                    Some(p) => seq.push(p),
                    None => {
                        obs.inconclusive(format!("unknown class {nm}"));
                        return;
                    }
                }
            }
            let seps: Vec<usize> = seps.split(',').filter_map(|x| x.parse().ok()).collect();
            check_sequence(&seq, if seps.is_empty() { &[0] } else { &seps }, obs);
            return;
        }
        obs.inconclusive("unrecognised input spec");
    }
}

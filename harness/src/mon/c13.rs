//! C13 — gate, qubit, const and scope usage rules are diagnosed exactly.
//!
//! A dedicated generator builds programs in which each rule is independently violated or
//! respected at random sites and predicts, per statement, the multiset of diagnostics of the
//! eight kinds the property names.  Declarations and assignments are kept type-trivial so that
//! no other source of IncompatibleTypesError exists in these programs.

use super::semcommon::*;
use crate::model_resolve::STDGATES;
use crate::rng::{mix, Rng};
use crate::worker::{guard, Obs, Property, Stream, Tier};

pub struct C13;

const KINDS: &[&str] = &[
    "NumGateParamsError",
    "NumGateQubitsError",
    "NumDefParamsError",
    "IncompatibleTypesError",
    "MutateConstError",
    "NotInGlobalScopeError",
    "ReturnInGlobalScopeError",
    "UndefGateError",
];

#[derive(Clone)]
struct St {
    text: String,
    expect: Vec<&'static str>,
    rule: String,
}

struct Gen<'a> {
    r: &'a mut Rng,
    stdlib: bool,
    user_gates: Vec<(String, usize, usize)>,
    defs: Vec<(String, usize)>,
    counter: u32,
}

impl<'a> Gen<'a> {
    fn qoperand(&mut self) -> String {
        match self.r.below(5) {
            0 => "q0".into(),
            1 => format!("qr[{}]", self.r.below(3)),
            2 => format!("${}", self.r.below(3)),
            // a register of length one is still a register: its only element is indexed
            3 => "q1r[0]".into(),
            _ => "q1".into(),
        }
    }
    fn coperand(&mut self) -> String {
        self.r.pick(&["c", "i", "f", "cr[0]", "cr"]).to_string()
    }
    fn angle_arg(&mut self) -> String {
        self.r.pick(&["1", "a", "2", "pi"]).to_string()
    }

    fn gate_call(&mut self) -> St {
        // choose a gate
        let mut cands: Vec<(String, usize, usize)> = vec![("U".into(), 3, 1)];
        if self.stdlib {
            cands.extend(STDGATES.iter().map(|(n, a, b)| (n.to_string(), *a, *b)));
        }
        cands.extend(self.user_gates.iter().cloned());
        let (name, dnp, dnq) = cands[self.r.usize(cands.len())].clone();
        let modifier = *self.r.pick(&["", "", "inv @ ", "pow(2) @ ", "inv @ pow(2) @ ", "pow(2) @ inv @ "]);
        let dp = *self.r.pick(&[0i64, 0, 0, 1, -1]);
        let dq = *self.r.pick(&[0i64, 0, 0, 1, -1]);
        let np = (dnp as i64 + dp).max(0) as usize;
        let nq = (dnq as i64 + dq).max(1) as usize;
        let mut expect = Vec::new();
        if np != dnp {
            expect.push("NumGateParamsError");
        }
        if nq != dnq {
            expect.push("NumGateQubitsError");
        }
        let mut ops = Vec::new();
        let classical_at = if self.r.chance(1, 5) { Some(self.r.usize(nq)) } else { None };
        for k in 0..nq {
            if Some(k) == classical_at {
                ops.push(self.coperand());
                expect.push("IncompatibleTypesError");
            } else {
                ops.push(self.qoperand());
            }
        }
        let args: Vec<String> = (0..np).map(|_| self.angle_arg()).collect();
        let a = if np == 0 { String::new() } else { format!("({})", args.join(", ")) };
        St {
            text: format!("{modifier}{name}{a} {};", ops.join(", ")),
            expect,
            rule: format!("gate-call/{}/np{dp:+}/nq{dq:+}/{}", if name == "U" { "U" } else if name.starts_with("ug") { "user" } else { "stdlib" }, if modifier.is_empty() { "plain" } else { "inv-pow" }),
        }
    }

    fn not_a_gate(&mut self, global: bool) -> St {
        // the called name resolves - by lexical scoping - to something that is not a gate; in the
        // local forms the non-gate is declared in an inner scope (a fresh name, or one that shadows
        // a library gate or a user gate of the global scope)
        self.counter += 1;
        let n = self.counter;
        let q = self.qoperand();
        let shadowed = if self.stdlib { "h".to_string() } else if let Some(g) = self.user_gates.first() { g.0.clone() } else { format!("fresh{n}") };
        let (text, form) = match self.r.below(if global { 6 } else { 4 }) {
            0 | 1 => {
                let v = self.r.pick(&["i", "c", "f", "k"]).to_string();
                (format!("{v} {q};"), "global-variable")
            }
            2 => (format!("if (true) {{ int locv{n} = 1; locv{n} {q}; }}"), "local-variable"),
            3 => (format!("if (true) {{ int {shadowed} = 1; {shadowed} {q}; }}"), "local-variable-shadowing-a-gate"),
            4 => (format!("def fsh{n}(qubit xq) {{ xq xq; }}"), "qubit-parameter"),
            _ => (format!("def fsi{n}(int {shadowed}, qubit aq) {{ {shadowed} aq; }}"), "parameter-shadowing-a-gate"),
        };
        St {
            text,
            expect: vec!["IncompatibleTypesError"],
            rule: format!("call-of-non-gate/{form}"),
        }
    }

    fn undefined_gate(&mut self) -> St {
        self.counter += 1;
        let q = self.qoperand();
        St {
            text: format!("nogate{} {q};", self.counter),
            expect: vec!["UndefGateError"],
            rule: "undefined-gate".into(),
        }
    }

    fn operand_stmt(&mut self) -> St {
        let bad = self.r.chance(1, 2);
        let op = if bad { self.coperand() } else { self.qoperand() };
        let (text, rule) = match self.r.below(4) {
            0 => (format!("measure {op};"), "measure-operand"),
            1 => (format!("reset {op};"), "reset-operand"),
            2 => (format!("barrier q0, {op};"), "barrier-operand"),
            _ => (format!("delay[d] {op};"), "delay-operand"),
        };
        St {
            text,
            expect: if bad { vec!["IncompatibleTypesError"] } else { vec![] },
            rule: format!("{rule}/{}", if bad { "classical" } else { "quantum" }),
        }
    }

    fn binary_on_quantum(&mut self) -> St {
        let op = *self.r.pick(&["+", "-", "*", "/", "&", "|", "^", "<<", "==", "!=", "**", "%", ">>"]);
        // quantum operands: a qubit, a register, a hardware qubit
        let (l, lq) = match self.r.below(4) {
            0 => ("q0", true),
            1 => ("$0", true),
            _ => ("i", false),
        };
        let (rr, rq) = match self.r.below(5) {
            0 => ("qr", true),
            1 => ("q1", true),
            2 => ("$1", true),
            _ => ("i", false),
        };
        let mut expect = Vec::new();
        if lq {
            expect.push("IncompatibleTypesError");
        }
        if rq {
            expect.push("IncompatibleTypesError");
        }
        St {
            text: format!("{l} {op} {rr};"),
            expect,
            rule: format!("binary-on-quantum/{}{}", if lq { "L" } else { "-" }, if rq { "R" } else { "-" }),
        }
    }

    fn def_call(&mut self) -> Option<St> {
        if self.defs.is_empty() {
            return None;
        }
        let (name, np) = self.defs[self.r.usize(self.defs.len())].clone();
        let d = *self.r.pick(&[0i64, 0, 1, -1]);
        let n = (np as i64 + d).max(0) as usize;
        let args: Vec<String> = (0..n).map(|k| (k + 1).to_string()).collect();
        Some(St {
            text: format!("{name}({});", args.join(", ")),
            expect: if n != np { vec!["NumDefParamsError"] } else { vec![] },
            rule: format!("def-call/{np}-params/{d:+}"),
        })
    }

    fn const_assign(&mut self) -> St {
        // const and mutable targets of several scalar types, with the value written as a literal,
        // a variable and a negated literal (each accepted without a type diagnostic)
        let konst = self.r.bool();
        let (cname, mname, values): (&str, &str, &[&str]) = match self.r.below(7) {
            5 => ("kd", "d", &["20ns", "d", "2.5us"]),
            6 => ("kc", "mc", &["mc"]),
            0 => ("k", "i", &["2", "-3", "i", "0x1F"]),
            1 => ("ku", "mu", &["2", "0", "0xFF", "mu"]),
            2 => ("ku8", "mu8", &["2", "1", "mu8"]),
            3 => ("kf", "f", &["2.5", "f", "-1.5"]),
            _ => ("kb", "mb", &["true", "false", "mb"]),
        };
        let v = *self.r.pick(values);
        St {
            text: format!("{} = {v};", if konst { cname } else { mname }),
            expect: if konst { vec!["MutateConstError"] } else { vec![] },
            rule: format!("assign/{}/{}", if konst { "const" } else { "mutable" }, cname),
        }
    }

    fn delay(&mut self) -> St {
        // duration designators; and non-durations of every literal class and of several variable types
        let (e, bad) = match self.r.below(14) {
            0 => ("d", false),
            1 => ("10ns", false),
            2 => ("2.5us", false),
            3 => ("(d)", false),
            4 => ("i", true),
            5 => ("3", true),
            6 => ("2im", true),
            7 => ("2.5im", true),
            8 => ("kf", true), // (a float literal designator is already a syntax diagnostic)
            9 => ("true", true),
            10 => ("f", true),
            11 => ("k", true),
            12 => ("(2im)", true),
            _ => ("1dt", false),
        };
        St {
            text: format!("delay[{e}] q0;"),
            expect: if bad { vec!["IncompatibleTypesError"] } else { vec![] },
            rule: format!("delay-designator/{}/{}", if bad { "not-duration" } else { "duration" }, e.replace(|c: char| c.is_ascii_digit(), "N")),
        }
    }

    /// a declaration of a qubit / gate / def (legal only at the global scope)
    fn global_only_decl(&mut self, global: bool) -> St {
        self.counter += 1;
        let n = self.counter;
        let (text, what) = match self.r.below(6) {
            0 => (format!("qubit lq{n};"), "qubit"),
            1 => (format!("qubit[2] lqr{n};"), "qubit-register"),
            4 => (format!("qubit ${};", 3 + n % 5), "hardware-qubit"),
            5 => (format!("qubit[1] lq1r{n};"), "qubit-register-of-one"),
            2 => (format!("gate lg{n} x1 {{ }}"), "gate"),
            _ => (format!("def ld{n}() {{ }}"), "def"),
        };
        St {
            text,
            expect: if global { vec![] } else { vec!["NotInGlobalScopeError"] },
            rule: format!("declare-{what}/{}", if global { "global" } else { "non-global" }),
        }
    }

    fn gphase_call(&mut self) -> St {
        let modifier = *self.r.pick(&["", "", "inv @ ", "pow(2) @ ", "inv @ pow(2) @ "]);
        let with_arg = self.r.bool();
        St {
            text: format!("{modifier}gphase({});", if with_arg { self.angle_arg() } else { String::new() }),
            expect: if with_arg { vec![] } else { vec!["NumGateParamsError"] },
            rule: format!("gate-call/gphase/np{}/{}", if with_arg { "+0" } else { "-1" }, if modifier.is_empty() { "plain" } else { "inv-pow" }),
        }
    }

    fn rule_stmt(&mut self, global: bool) -> St {
        loop {
            return match self.r.below(13) {
                12 => self.gphase_call(),
                0..=3 => self.gate_call(),
                4 => self.not_a_gate(global),
                5 => self.operand_stmt(),
                6 => self.binary_on_quantum(),
                7 => match self.def_call() {
                    Some(s) => s,
                    None => continue,
                },
                8 => self.const_assign(),
                9 => self.delay(),
                10 => self.global_only_decl(global),
                _ => self.undefined_gate(),
            };
        }
    }
}

struct Prog {
    text: String,
    /// statements with their predictions, flattened in source order
    stmts: Vec<St>,
    /// byte offset of the line of each rule site in `text` (same order as `stmts`)
    line_starts: Vec<usize>,
}

fn build(seed: u64) -> Prog {
    let mut r = Rng::new(seed);
    let stdlib = r.chance(2, 3);
    let mut g = Gen {
        r: &mut r,
        stdlib,
        user_gates: Vec::new(),
        defs: Vec::new(),
        counter: 0,
    };
    let mut text = String::new();
    let mut stmts: Vec<St> = Vec::new();
    let mut line_starts: Vec<usize> = Vec::new();
    if stdlib {
        text.push_str("include \"stdgates.inc\";\n");
    }
    text.push_str("qubit q0;\nqubit q1;\nqubit[3] qr;\nqubit[1] q1r;\nbit c;\nbit[2] cr;\nint i;\nconst int k = 1;\nuint mu;\nconst uint ku = 1;\nuint[8] mu8;\nconst uint[8] ku8 = 1;\nconst float kf = 1.5;\nbool mb;\nconst bool kb = true;\nfloat f;\nduration d;\nangle a;\nconst duration kd = 10ns;\ncomplex mc;\nconst complex kc = 1.5im;\n");
    // user gates with 0-4 parameters and 1-4 qubits
    let ng = g.r.below(3);
    for n in 0..ng {
        let np = g.r.below(5) as usize;
        let nq = g.r.range(1, 4) as usize;
        let ps: Vec<String> = (0..np).map(|k| format!("p{k}")).collect();
        let qs: Vec<String> = (0..nq).map(|k| format!("x{k}")).collect();
        let name = format!("ug{n}");
        text.push_str(&format!("gate {name}{} {} {{ }}\n", if np == 0 { String::new() } else { format!("({})", ps.join(", ")) }, qs.join(", ")));
        g.user_gates.push((name, np, nq));
    }
    let nd = g.r.below(3);
    for n in 0..nd {
        let np = g.r.below(4) as usize;
        let ps: Vec<String> = (0..np).map(|k| format!("int a{k}")).collect();
        let name = format!("sub{n}");
        text.push_str(&format!("def {name}({}) {{ }}\n", ps.join(", ")));
        g.defs.push((name, np));
    }
    let n = g.r.range(1, 6);
    for _ in 0..n {
        // scope kind of this statement
        let kind = g.r.below(9);
        let global = kind < 3;
        let mut st = g.rule_stmt(global);
        let (pre, post, sk) = match kind {
            0..=2 => ("", "", "global"),
            3 => ("if (true) { ", " }", "if-body"),
            4 => ("if (true) { } else { ", " }", "else-body"),
            5 => ("while (true) { ", " }", "while-body"),
            6 => ("for int lv in [0:1] { ", " }", "for-body"),
            7 => ("switch (1) { case 1 { ", " } }", "case-body"),
            _ => ("switch (1) { default { ", " } }", "default-body"),
        };
        st.rule = format!("{}@{sk}", st.rule);
        line_starts.push(text.len());
        text.push_str(&format!("{pre}{}{post}\n", st.text));
        stmts.push(st);
    }
    // return at global scope / inside a def
    if g.r.chance(1, 4) {
        line_starts.push(text.len());
        let form = *g.r.pick(&["return;", "return;", "return 1;", "return i;", "return (i);", "return f;"]);
        text.push_str(&format!("{form}\n"));
        stmts.push(St {
            text: form.into(),
            expect: vec!["ReturnInGlobalScopeError"],
            rule: format!("return/global/{}", if form == "return;" { "bare" } else { "with-value" }),
        });
    }
    if g.r.chance(1, 4) {
        line_starts.push(text.len());
        let form = *g.r.pick(&["def with_return() -> int { return 1; }", "def with_return() { return; }", "def with_return() -> int { if (true) { return 2; } return 1; }"]);
        text.push_str(&format!("{form}\n"));
        stmts.push(St {
            text: form.into(),
            expect: vec![],
            rule: "return/in-def".into(),
        });
    }
    // a subroutine parameter is a variable: assigning to it is no const mutation (also two scopes down)
    if g.r.chance(1, 4) {
        g.counter += 1;
        let n = g.counter;
        let (ty, v) = *g.r.pick(&[("int", "2"), ("uint[8]", "3"), ("float", "2.5"), ("bool", "true"), ("duration", "20ns"), ("int[32]", "5")]);
        let body = match g.r.below(3) {
            0 => format!("pp = {v};"),
            1 => format!("if (true) {{ pp = {v}; }}"),
            _ => format!("for int lv in [0:1] {{ if (true) {{ pp = {v}; }} }}"),
        };
        let form = format!("def pa{n}({ty} pp) {{ {body} }}");
        line_starts.push(text.len());
        text.push_str(&format!("{form}\n"));
        stmts.push(St { text: form, expect: vec![], rule: format!("assign/parameter/{ty}") });
    }
    // declarations inside subroutine scopes
    if g.r.chance(1, 3) {
        let inner = g.global_only_decl(false);
        let gate = g.r.bool();
        let t = if gate { format!("gate holder x9 {{ {} }}", inner.text) } else { format!("def holder() {{ {} }}", inner.text) };
        line_starts.push(text.len());
        text.push_str(&t);
        text.push('\n');
        stmts.push(St {
            text: t,
            expect: inner.expect,
            rule: format!("{}@{}", inner.rule, if gate { "gate-body" } else { "def-body" }),
        });
    }
    Prog { text, stmts, line_starts }
}

fn multiset(v: &[String]) -> Vec<(String, usize)> {
    let mut m: std::collections::BTreeMap<String, usize> = Default::default();
    for x in v {
        *m.entry(x.clone()).or_insert(0) += 1;
    }
    m.into_iter().collect()
}

fn check_prog(p: &Prog, obs: &mut Obs) {
    obs.fp.str(&p.text);
    let res = match analyse_text(&p.text) {
        Ok(r) => r,
        Err(AErr::Rejected(m)) => {
            obs.note = format!("{:?}", p.text);
            obs.inconclusive(format!("rejected by the parser: {m}"));
            return;
        }
        Err(AErr::Panic(site, _)) => {
            obs.inconclusive(format!("analysis panicked (C03): {site}"));
            return;
        }
    };
    let r = guard(|| {
        let src = p.text.clone();
        let got: Vec<(String, String)> = res
            .semantic_errors()
            .iter()
            .map(|e| {
                let (a, b): (usize, usize) = (e.range().start().into(), e.range().end().into());
                (diag_kind(e), src.get(a..b).unwrap_or("").to_string())
            })
            .collect();
        got
    });
    let got = match r {
        Ok(g) => g,
        Err(p) => {
            obs.inconclusive(format!("monitor panicked {}", p.site()));
            return;
        }
    };
    let observed: Vec<String> = got.iter().filter(|(k, _)| KINDS.contains(&k.as_str())).map(|(k, _)| k.clone()).collect();
    let other: Vec<&(String, String)> = got.iter().filter(|(k, _)| !KINDS.contains(&k.as_str())).collect();
    let expected: Vec<String> = p.stmts.iter().flat_map(|s| s.expect.iter().map(|k| k.to_string())).collect();
    for s in &p.stmts {
        obs.class(&format!("rule:{}", s.rule.split(['/', '@']).next().unwrap_or("")));
        obs.count(&format!("{}:{}", s.rule.split('@').next().unwrap_or(""), if s.expect.is_empty() { "respected" } else { "violated" }));
    }
    if multiset(&observed) != multiset(&expected) {
        // attribute: analyse each rule statement alone on top of the common preamble
        // the preamble ends where the first rule site (in text order, not in generation order) starts
        // (line offsets are recorded at generation: searching for a site's text would also find
        // it inside a declaration of the preamble, e.g. `kb = true;` in `const bool kb = true;`)
        let pre_end = p.line_starts.iter().copied().min().unwrap_or(0);
        let preamble = p.text[..pre_end].to_string();
        let mut attributed = false;
        for (s, &line_start) in p.stmts.iter().zip(p.line_starts.iter()) {
            let line_end = p.text[line_start..].find('\n').map(|j| line_start + j).unwrap_or(p.text.len());
            let single = format!("{preamble}{}\n", &p.text[line_start..line_end]);
            if let Ok(res1) = analyse_text(&single) {
                let ob: Vec<String> = res1.semantic_errors().iter().map(diag_kind).filter(|k| KINDS.contains(&k.as_str())).collect();
                let ex: Vec<String> = s.expect.iter().map(|k| k.to_string()).collect();
                if multiset(&ob) != multiset(&ex) {
                    attributed = true;
                    let clause = if ob.len() < ex.len() { "rule-violation-not-reported" } else if ob.len() > ex.len() { "diagnostic-without-violation" } else { "wrong-kind" };
                    obs.violate(format!("{}/{clause}", s.rule), format!("{:?}: reported {:?}, expected {:?}", &p.text[line_start..line_end], multiset(&ob), multiset(&ex)));
                }
            }
        }
        if !attributed {
            obs.violate("program/diagnostics-differ-only-in-combination", format!("{:?}: reported {:?}, expected {:?}", p.text, multiset(&observed), multiset(&expected)));
        }
    }
    if !other.is_empty() {
        obs.count_n("other-diagnostic-kinds", other.len() as u64);
    }
    obs.note = format!("{} rule sites: reported {:?} = predicted", p.stmts.len(), multiset(&observed));
    obs.done(p.stmts.len() >= 2);
}

impl Property for C13 {
    fn id(&self) -> &'static str {
        "C13"
    }
    fn rule(&self) -> &'static str {
        "A dedicated generator builds programs (fixed typed preamble, 0-2 user gates with 0-4 parameters x 1-4 qubits, 0-2 subroutines) with 1-6 rule sites, each in a random scope kind (global, if/else/while/for/case/default body; declarations also in gate and def bodies): calls of U, every standard-library gate and user gates with parameter/qubit counts off by -1/0/+1, unmodified and under inv@ / pow(k)@; calling a variable or an undefined name as a gate; classical symbols as gate/measure/reset/barrier/delay operands; binary operators on qubits; def calls with wrong argument counts; assignment to const; qubit/gate/def declarations in non-global scopes; return at global scope and inside defs; delay with duration and non-duration designators. Each site carries its predicted diagnostics; the multiset of the eight kinds named by the property over the whole program must equal the prediction (both directions: missing report, spurious report); a mismatch is attributed by re-analysing each site alone. Non-trivial: >= 2 sites. Distinct: source text."
    }
    fn streams(&self, tier: Tier, seed: u64) -> Vec<Stream> {
        vec![Stream::new("rule-programs", tier.pick(40_000, 2_000_000), false, move |i| format!("p:{}", mix(&[seed, 0xC13, i])))]
    }
    fn check(&self, input: &str, obs: &mut Obs) {
        if let Some(rest) = input.strip_prefix("p:") {
            let p = build(rest.parse().unwrap_or(0));
            check_prog(&p, obs);
            return;
        }
        if let Some(src) = input.strip_prefix("src:") {
            // `src:<expected kinds comma separated>|<source>`
            let (kinds, text) = src.split_once('|').unwrap_or(("", src));
            let expect: Vec<&'static str> = kinds.split(',').filter_map(|k| KINDS.iter().find(|x| **x == k).copied()).collect();
            let p = Prog {
                text: text.to_string(),
                stmts: vec![St { text: text.lines().last().unwrap_or("").to_string(), expect, rule: "explicit".into() }],
                // the last line is the site, everything before it the preamble
                line_starts: vec![text.trim_end_matches('\n').rfind('\n').map(|i| i + 1).unwrap_or(0)],
            };
            check_prog(&p, obs);
            return;
        }
        obs.inconclusive("unrecognised input spec");
    }
    fn mandatory_classes(&self, _tier: Tier) -> Vec<&'static str> {
        vec!["rule:gate-call", "rule:call-of-non-gate", "rule:binary-on-quantum", "rule:def-call", "rule:assign", "rule:return", "rule:delay-designator", "rule:declare-qubit", "rule:declare-gate", "rule:declare-def"]
    }
}

//! C11 — malformed lexemes are always diagnosed and errors gate the later stages.

use super::c15;
use crate::gen::programs;
use crate::rng::{mix, Rng};
use crate::worker::{guard, Obs, Property, Stream, Tier};
use oq3_parser::LexedStr;
use oq3_semantics::syntax_to_semantics::{parse_source_file, parse_source_string, parse_source_string_with_path_search};
use oq3_source_file::SourceTrait;
use oq3_syntax::SourceFile;
use std::path::PathBuf;

pub struct C11;

/// (class name, text, swallows the rest of the input)
const MALFORMED: &[(&str, &str, bool)] = &[
    ("unterminated-string", "\"abc", true),
    ("unterminated-string-sq", "'abc", true),
    ("unterminated-string-escaped-quote", "\"ab\\\"", true),
    ("unterminated-string-sq-escaped-quote", "'ab\\'", true),
    ("unterminated-string-sq-escaped-quote-include", "include 'ab\\';", true),
    ("unterminated-bitstring", "\"0101", true),
    ("unterminated-bitstring-underscores", "\"0__1", true),
    ("unterminated-bitstring-newline", "\"01\n", true),
    ("unterminated-block-comment", "/* abc", true),
    ("unterminated-nested-comment", "/* a /* b */ c", true),
    ("unterminated-comment-star", "/*/", true),
    ("hex-prefix-no-digits", "0x", false),
    ("hex-prefix-no-digits-upper", "0X", false),
    ("bin-prefix-no-digits-upper", "0B", false),
    ("oct-prefix-no-digits-upper", "0O", false),
    ("bin-prefix-no-digits", "0b", false),
    ("bin-prefix-underscore", "0b_", false),
    ("hex-prefix-underscore", "0x_", false),
    ("hex-prefix-underscores", "0x__", false),
    ("oct-prefix-underscore", "0o_", false),
    ("hex-prefix-underscore-then-nonhex", "0x_g", false),
    ("oct-prefix-no-digits", "0o", false),
    ("hex-prefix-then-nonhex", "0xg", false),
    ("float-exponent-no-digits", "1e", false),
    ("float-exponent-sign-no-digits", "1.5e+", false),
    ("float-leading-dot-exponent-no-digits", ".5E-", false),
    ("float-leading-dot-bare-exponent", ".5e", false),
    ("float-exponent-upper-no-digits", "2E", false),
    ("float-exponent-underscore-only", "1e_", false),
    ("float-dot-exponent-no-digits", "1.0e", false),
    ("float-bare-dot-exponent-sign-no-digits", "1.e+", false),
    ("float-bare-dot-exponent-upper-sign-no-digits", "1.E-", false),
    ("float-zero-bare-dot-exponent-sign-no-digits", "0.e+", false),
    ("float-underscore-bare-dot-exponent-sign-no-digits", "12_3.E+", false),
    ("version-no-number", "OPENQASM ;", false),
    ("version-trailing-dot", "OPENQASM 3.;", false),
    ("version-not-a-number", "OPENQASM x;", false),
    ("version-garbage-suffix", "OPENQASM 3.0x;", false),
    ("version-major-garbage-suffix", "OPENQASM 3x;", false),
    ("version-major-comma", "OPENQASM 3,", false),
    ("version-major-then-string", "OPENQASM 3\"a\";", false),
    ("version-minor-not-a-number", "OPENQASM 3.x;", false),
    ("version-nul-after-number", "OPENQASM 3.0\0;", false),
    ("version-nul-after-major", "OPENQASM 3\0;", false),
    ("version-nul-then-garbage", "OPENQASM 3.1\0abc;", false),
    ("version-control-char-after-number", "OPENQASM 3.0\u{1};", false),
    ("version-no-break-space-after-number", "OPENQASM 3\u{a0};", false),
    ("ident-with-emoji", "a😀b", false),
    ("ident-pragma-emoji", "pragma😀", false),
    ("ident-pragma-emoji-tail", "pragma😀abc", false),
    ("ident-keyword-emoji", "gate😀", false),
    ("ident-emoji-only", "😀", false),
    ("ident-hash", "#foo", false),
    ("hardware-emoji", "$😀", false),
    // the two Latin-1 characters that have the Emoji property
    ("ident-copyright-inside", "x©y", false),
    ("ident-registered-tail", "total®", false),
    ("ident-copyright-head", "©right", false),
    ("ident-registered-only", "®", false),
    ("hardware-registered", "$®", false),
    ("ident-emoji-then-copyright", "a🙂©b", false),
];

const LEXER_MESSAGES: &[&str] = &[
    "Missing digits after the integer base prefix",
    "Missing digits after the exponent symbol",
    "Missing trailing `'` symbol to terminate the byte literal",
    "Missing trailing `\"` symbol to terminate the string literal",
    "Missing trailing `\"` symbol to terminate the bitstring literal",
    "Consecutive underscores not allowed in bitstring literal",
    "Missing trailing `*/` symbols to terminate the block comment",
    "Invalid minor version in OpenQASM version statement",
    "Invalid version number in OpenQASM version statement",
    "Identifier contains invalid characters",
    "Invalid suffix on string literal",
];

fn check_splice(text: &str, span: (usize, usize), class: &str, pos_class: &str, obs: &mut Obs) {
    obs.fp.str(text);
    let r = guard(|| {
        let lx = LexedStr::new(text);
        let errs: Vec<(usize, usize, String)> = lx
            .errors()
            .map(|(i, m)| {
                let r = lx.text_range(i);
                (r.start, r.end, m.to_string())
            })
            .collect();
        let clean = lx.errors_is_empty();
        let p = SourceFile::parse_check_lex(text);
        let msgs: Vec<String> = p.errors().iter().map(|e| e.message().to_string()).collect();
        (errs, clean, p.have_parse(), msgs)
    });
    match r {
        Err(p) => obs.inconclusive(format!("panic: {}", p.site())),
        Ok((errs, clean, have, msgs)) => {
            let located = errs.iter().any(|(a, b, _)| *a < span.1 && *b > span.0);
            if !located {
                obs.violate(
                    format!("malformed-lexeme-not-diagnosed/{class}/{pos_class}"),
                    format!("{text:?}: malformed lexeme at {span:?}; lexical errors: {errs:?}"),
                );
            }
            check_gate_lex(text, clean, have, &msgs, obs);
            obs.done(true);
        }
    }
}

fn check_gate_lex(text: &str, clean: bool, have: bool, msgs: &[String], obs: &mut Obs) {
    if have != clean {
        obs.violate(
            format!("tree-iff-no-lexical-error/{}", if have { "tree-despite-lexical-error" } else { "no-tree-without-lexical-error" }),
            format!("{text:?}: have_parse={have}, lexical errors empty={clean}"),
        );
    }
    if have {
        if let Some(m) = msgs.iter().find(|m| LEXER_MESSAGES.contains(&m.as_str())) {
            obs.violate("lexical-diagnostic-with-tree/any", format!("{text:?}: tree returned together with lexer message {m:?}"));
        }
        obs.class("lex-clean-with-tree");
    } else {
        if msgs.is_empty() {
            obs.violate("no-tree-and-no-diagnostic/any", format!("{text:?}"));
        }
        obs.class("lexical-error-no-tree");
    }
}

/// A second malformed lexeme in front: an identifier glued to the closing quote of a string (itself a
/// lexical error).  Every malformed lexeme is still diagnosed *on that lexeme*.
const SUFFIXED_STRINGS: &[&str] = &["\"lib.inc\"suffix", "\"01\"b2", "'s'x_long_suffix_name", "\"é\"é"];

fn after_suffixed_string_case(idx: u64, obs: &mut Obs) {
    let mi = (idx as usize / SUFFIXED_STRINGS.len()) % MALFORMED.len();
    let pre = SUFFIXED_STRINGS[idx as usize % SUFFIXED_STRINGS.len()];
    let (mname, mtext, _) = MALFORMED[mi];
    let text = format!("include {pre};\nint x = {mtext}");
    let start = text.len() - mtext.len();
    check_splice(&text, (start, text.len()), mname, "after-suffixed-string", obs);
    // and the first one is located on the string token
    let r = guard(|| {
        let lx = LexedStr::new(&text);
        lx.errors().map(|(i, _)| lx.text_range(i)).map(|r| (r.start, r.end)).collect::<Vec<_>>()
    });
    if let Ok(errs) = r {
        let s0 = "include ".len();
        if !errs.iter().any(|(a, b)| *a < s0 + pre.len() && *b > s0) {
            obs.violate("malformed-lexeme-not-diagnosed/string-with-glued-identifier/first", format!("{text:?}: lexical errors at {errs:?}"));
        }
    }
}

/// Two malformed lexemes with nothing between them: the second starts with a character that cannot
/// continue the first (a quote or `/*`), so both are lexemes of their own and each needs its diagnostic.
const GLUED_SECOND: &[(&str, &str)] = &[("unterminated-string", "\"abc"), ("unterminated-string-sq", "'abc"), ("unterminated-bitstring", "\"0101"), ("unterminated-block-comment", "/* never closed")];

fn glued_count() -> u64 {
    (MALFORMED.iter().filter(|m| !m.2).count() * GLUED_SECOND.len() * 2) as u64
}

fn glued_case(idx: u64, obs: &mut Obs) {
    let firsts: Vec<&(&str, &str, bool)> = MALFORMED.iter().filter(|m| !m.2).collect();
    let lead = idx % 2 == 1;
    let idx = (idx / 2) as usize;
    let (n1, t1, _) = *firsts[idx % firsts.len()];
    let (n2, t2) = GLUED_SECOND[(idx / firsts.len()) % GLUED_SECOND.len()];
    // a version header is only a header at the start of the text; the others also after a statement
    let prefix = if lead && !t1.starts_with("OPENQASM") { "int x = " } else { "" };
    let text = format!("{prefix}{t1}{t2}");
    let s1 = prefix.len();
    let s2 = s1 + t1.len();
    check_splice(&text, (s1, s2), n1, "first-of-two-glued", obs);
    check_splice(&text, (s2, text.len()), n2, "second-of-two-glued", obs);
}

fn splice_count() -> u64 {
    (MALFORMED.len() * c15::classes().len() * 4) as u64
}

fn splice_case(idx: u64, obs: &mut Obs) {
    let cl = c15::classes();
    let variant = (idx % 4) as usize;
    let ci = ((idx / 4) as usize) % cl.len();
    let mi = (idx / 4) as usize / cl.len();
    let (mname, mtext, swallows) = MALFORMED[mi];
    let c = &cl[ci];
    let ctext = if c.line_terminated { format!("{}\n", c.text) } else { c.text.clone() };
    let sep = if variant % 2 == 0 { " " } else { "\n" };
    // variants: 0/1: C M (last), 2: M C (first), 3: C M C (middle)
    let (text, start, pos_class) = match variant {
        0 | 1 => {
            let t = format!("{ctext}{sep}{mtext}");
            let st = ctext.len() + sep.len();
            (t, st, "last-before-EOF")
        }
        2 => {
            if swallows {
                // an unterminated lexeme swallows what follows: only meaningful in last position
                let t = format!("{ctext}{sep}{mtext}\n");
                let st = ctext.len() + sep.len();
                (t, st, "last-before-EOF")
            } else {
                (format!("{mtext}{sep}{ctext}"), 0, "first")
            }
        }
        _ => {
            if swallows {
                let t = format!("x ;{sep}{ctext}{sep}{mtext}");
                let st = 3 + sep.len() + ctext.len() + sep.len();
                (t, st, "last-before-EOF")
            } else {
                let t = format!("{ctext}{sep}{mtext}{sep}{ctext}");
                let st = ctext.len() + sep.len();
                (t, st, "middle")
            }
        }
    };
    let span = (start, start + mtext.len());
    check_splice(&text, span, mname, pos_class, obs);
}

// ---------------------------------------------------------------- gating through the pipeline

fn inject_syntax_error(r: &mut Rng, src: &str) -> String {
    let toks = crate::gen::strings::crude_tokens(src);
    if toks.is_empty() {
        return ") ;".to_string();
    }
    let (a, b) = toks[r.usize(toks.len())];
    let mut s = src.to_string();
    match r.below(5) {
        0 => s.insert_str(a, " ) "),
        1 => s.insert_str(b, " int ; "),
        2 => s.insert_str(a, " § "),
        3 => s.insert_str(b, " \"unterminated"),
        _ => s.insert_str(a, " ] = "),
    }
    s
}

fn has_translatable_statement(src: &str) -> bool {
    use oq3_syntax::ast::Stmt;
    let p = SourceFile::parse(src);
    p.tree().statements().any(|s| !matches!(s, Stmt::AnnotationStatement(_) | Stmt::VersionString(_) | Stmt::Include(_)))
}

fn syntax_clean(src: &str) -> bool {
    let p = SourceFile::parse_check_lex(src);
    p.have_parse() && p.errors().is_empty()
}

struct GateObs {
    any_syntax: bool,
    nstmts: usize,
    nsem: usize,
    any_sem: bool,
    trait_syntax: bool,
    num_syntax: usize,
}

fn observe_gate<T: SourceTrait>(res: &oq3_semantics::syntax_to_semantics::ParseResult<T>) -> GateObs {
    GateObs {
        any_syntax: res.any_syntax_errors(),
        nstmts: res.program().stmts().len(),
        nsem: res.semantic_errors().len(),
        any_sem: res.any_semantic_errors(),
        trait_syntax: res.syntax_result().have_syntax_errors(),
        num_syntax: res.num_syntax_errors(),
    }
}

fn check_gate(g: &GateObs, expect_syntax_error: bool, translatable: bool, place: &str, detail: &str, obs: &mut Obs) {
    if g.any_syntax != expect_syntax_error {
        obs.violate(
            format!("gating/{}/{place}", if expect_syntax_error { "syntax-error-not-flagged" } else { "spurious-syntax-error-flag" }),
            format!("{detail}: any_syntax_errors()={}, {} syntax diagnostics counted", g.any_syntax, g.num_syntax),
        );
    }
    if g.any_syntax != g.trait_syntax {
        obs.violate(format!("gating/flag-disagrees-with-source/{place}"), detail.to_string());
    }
    if expect_syntax_error {
        if g.nstmts != 0 {
            obs.violate(format!("gating/program-not-empty-despite-syntax-error/{place}"), format!("{detail}: {} statements", g.nstmts));
        }
        if g.nsem != 0 || g.any_sem {
            obs.violate(format!("gating/semantic-diagnostics-despite-syntax-error/{place}"), format!("{detail}: {} semantic diagnostics", g.nsem));
        }
        if (g.num_syntax == 0) != (!expect_syntax_error) {
            obs.violate(format!("gating/no-syntax-diagnostic-counted/{place}"), detail.to_string());
        }
        obs.class("gated");
    } else {
        if translatable && g.nstmts == 0 {
            obs.violate(format!("gating/analysis-did-not-run/{place}"), format!("{detail}: empty program for a clean source with translatable statements"));
        }
        obs.class("analysis-ran");
    }
}

fn gate_string_case(seed: u64, obs: &mut Obs) {
    let mut r = Rng::new(seed);
    let base = programs::faulty_program(&mut r);
    let Ok(true) = guard(|| syntax_clean(&base)) else {
        obs.inconclusive("generated program is not syntactically clean");
        return;
    };
    let broken = r.bool();
    let src = if broken { inject_syntax_error(&mut r, &base) } else { base.clone() };
    obs.fp.str(&src);
    let expect = match guard(|| !syntax_clean(&src)) {
        Ok(e) => e,
        Err(p) => {
            obs.inconclusive(format!("parse panicked: {}", p.site()));
            return;
        }
    };
    let r2 = guard(|| {
        let res = parse_source_string(&src, Some("c11.qasm"));
        (observe_gate(&res), has_translatable_statement(&src))
    });
    match r2 {
        Err(p) => obs.inconclusive(format!("analysis panicked (C03): {}", p.site())),
        Ok((g, tr)) => {
            check_gate(&g, expect, tr, "main-source", &format!("{src:?}"), obs);
            obs.note = format!("syntax error expected: {expect}; statements {}, semantic diagnostics {}", g.nstmts, g.nsem);
            obs.done(true);
        }
    }
}

/// Gating on an arbitrary string: a source with any syntax diagnostic yields an empty program and
/// no semantic diagnostics (and in particular a result, not a panic); a clean one is analysed.
fn gate_text_case(src: &str, obs: &mut Obs) {
    obs.fp.str(src);
    let expect = match guard(|| !syntax_clean(src)) {
        Ok(e) => e,
        Err(p) => {
            obs.inconclusive(format!("parse panicked (C01): {}", p.site()));
            return;
        }
    };
    let r2 = guard(|| {
        let res = parse_source_string(src, Some("c11.qasm"));
        (observe_gate(&res), has_translatable_statement(src))
    });
    match r2 {
        Err(p) if expect => {
            obs.violate(
                format!("gating/panic-on-source-with-syntax-errors/{}", p.site()),
                format!("{src:?}: parse_source_string panicked at {}:{} ({}) although the source has syntax diagnostics and must yield an empty program", p.file, p.line, p.msg),
            );
            obs.done(true);
        }
        Err(p) => obs.inconclusive(format!("analysis panicked (C03): {}", p.site())),
        Ok((g, tr)) => {
            check_gate(&g, expect, tr, "hostile-string", &format!("{src:?}"), obs);
            obs.note = format!("syntax error expected: {expect}; statements {}, semantic diagnostics {}", g.nstmts, g.nsem);
            obs.done(src.len() >= 3);
        }
    }
}

fn scratch_dir(tag: &str) -> PathBuf {
    use std::sync::atomic::{AtomicU64, Ordering};
    static N: AtomicU64 = AtomicU64::new(0);
    let n = N.fetch_add(1, Ordering::Relaxed);
    let base = std::env::current_dir().unwrap_or_else(|_| PathBuf::from("."));
    let d = base.join("fs").join(format!("{tag}-{}-{n}", std::process::id()));
    let _ = std::fs::create_dir_all(&d);
    std::fs::canonicalize(&d).unwrap_or(d)
}

/// main -> a.inc -> b.inc -> c.inc ; an error (syntactic or lexical) at depth `d` (0 = main) or nowhere.
fn gate_include_case(seed: u64, obs: &mut Obs) {
    let mut r = Rng::new(seed);
    let depth = r.range(1, 3) as usize; // number of include files in the chain
    let err_at: Option<usize> = if r.chance(1, 4) { None } else { Some(r.usize(depth + 1)) };
    let lexical = r.bool();
    let via_file = r.bool();
    let dir = scratch_dir("c11");
    // one chain in three uses file names that merely end in the library's name: they are ordinary files
    let names = if r.chance(1, 3) { ["main.qasm", "a_stdgates.inc", "sub.stdgates.inc", "xstdgates.inc"] } else { ["main.qasm", "a.inc", "b.inc", "c.inc"] };
    let mut texts: Vec<String> = Vec::new();
    for lvl in 0..=depth {
        // every file has a semantic fault (undeclared name) so that leaked analysis is visible
        let mut t = format!("int v{lvl} = 1;\nundeclared{lvl} = v{lvl};\n");
        // clean sibling includes in front of and behind the include that continues the chain
        let (sib_before, sib_after) = (r.chance(1, 3), r.chance(1, 2));
        if sib_before {
            let n = format!("sib_b{lvl}.inc");
            let _ = std::fs::write(dir.join(&n), format!("int sb{lvl} = 1;\n"));
            t.push_str(&format!("include \"{n}\";\n"));
        }
        if lvl < depth {
            t.push_str(&format!("include \"{}\";\n", names[lvl + 1]));
        }
        if sib_after {
            let n = format!("sib_a{lvl}.inc");
            let _ = std::fs::write(dir.join(&n), format!("int sa{lvl} = 1;\n"));
            t.push_str(&format!("include \"{n}\";\n"));
        }
        t.push_str(&format!("int w{lvl} = 2;\n"));
        if Some(lvl) == err_at {
            t.push_str(if lexical { "int z = 0x;\n" } else { "int = ;\n" });
        }
        texts.push(t);
    }
    for (lvl, t) in texts.iter().enumerate() {
        let _ = std::fs::write(dir.join(names[lvl]), t);
    }
    let place = match err_at {
        None => "no-error".to_string(),
        Some(0) => "error-in-main".to_string(),
        Some(d) => format!("error-in-include-depth-{d}"),
    };
    let detail = format!("chain of {depth} includes, {} error {place}, entry {}", if lexical { "lexical" } else { "syntactic" }, if via_file { "parse_source_file" } else { "parse_source_string_with_path_search" });
    obs.fp.str(&detail);
    let dir2 = dir.clone();
    let main_text = texts[0].clone();
    let r2 = guard(move || {
        if via_file {
            // relative includes are resolved through QASM3_PATH / cwd; use the search-path API instead
            let res = oq3_semantics::syntax_to_semantics::parse_source_file_with_search(dir2.join("main.qasm"), Some(&[dir2.clone()]));
            observe_gate(&res)
        } else {
            let res = parse_source_string_with_path_search(&main_text, Some("main.qasm"), Some(&[dir2.clone()]));
            observe_gate(&res)
        }
    });
    let _ = parse_source_file::<&str>; // (entry point exercised by C18)
    match r2 {
        Err(p) => {
            obs.violate(format!("gating/panic/{place}"), format!("{detail}: {}:{} {}", p.file, p.line, p.msg));
        }
        Ok(g) => {
            check_gate(&g, err_at.is_some(), true, &place, &detail, obs);
            obs.class(&format!("include-chain:{place}"));
            obs.note = format!("{detail}: any_syntax_errors={}, statements {}, semantic diagnostics {}", g.any_syntax, g.nstmts, g.nsem);
        }
    }
    let _ = std::fs::remove_dir_all(&dir);
    obs.done(true);
}

impl Property for C11 {
    fn id(&self) -> &'static str {
        "C11"
    }
    fn rule(&self) -> &'static str {
        "Streams: (1) exhaustive splice table: each of 30 malformed lexemes (unterminated strings/bit strings/block comments, base prefixes without digits, exponents without digits in every shape, malformed version headers, identifiers with forbidden characters) next to each lexeme class of the C15 table, in first/middle/last position with space and newline separators (unterminated lexemes only last, since they swallow the rest): the real LexedStr must report a lexical error on a token overlapping the malformed lexeme, and parse_check_lex returns a tree iff there is no lexical error, with no lexer message when a tree is returned; (2) generated programs, half with an injected syntax error, through parse_source_string: syntax errors => empty program and no semantic diagnostics, otherwise analysis ran; (3) include chains of depth 1-3 on disk with a lexical or syntactic error at depth 0..3 or nowhere, through both string and file entry points. Non-trivial: all cases. Distinct: hash of the source text / layout."
    }
    fn streams(&self, tier: Tier, seed: u64) -> Vec<Stream> {
        let mut v = vec![
            Stream::new("malformed-lexeme-splice-table", splice_count(), true, |i| format!("splice:{i}")),
            Stream::new("two-malformed-lexemes-glued", glued_count(), true, |i| format!("glued:{i}")),
            Stream::new("malformed-lexeme-after-a-suffixed-string", (MALFORMED.len() * SUFFIXED_STRINGS.len()) as u64, true, |i| format!("dbl:{i}")),
            Stream::new("pipeline-gating-programs", tier.pick(30_000, 1_500_000), false, move |i| format!("gate:{}", mix(&[seed, 0xC11, 1, i]))),
            Stream::new("pipeline-gating-include-chains", tier.pick(1_500, 40_000), false, move |i| format!("inc:{}", mix(&[seed, 0xC11, 2, i]))),
        ];
        // the gating clause on arbitrary strings (every prefix of every seed program, mutants,
        // token soup, hostile UTF-8 ...) through parse_source_string
        for mut st in super::common::string_streams(0xC11, tier, seed, 0.5) {
            st.name = format!("gating-{}", st.name);
            v.push(st);
        }
        v
    }
    fn check(&self, input: &str, obs: &mut Obs) {
        if let Some(rest) = input.strip_prefix("splice:") {
            splice_case(rest.parse().unwrap_or(0), obs);
            return;
        }
        if let Some(rest) = input.strip_prefix("glued:") {
            glued_case(rest.parse().unwrap_or(0), obs);
            return;
        }
        if let Some(rest) = input.strip_prefix("dbl:") {
            after_suffixed_string_case(rest.parse().unwrap_or(0), obs);
            return;
        }
        if let Some(rest) = input.strip_prefix("gate:") {
            gate_string_case(rest.parse().unwrap_or(0), obs);
            return;
        }
        if let Some(rest) = input.strip_prefix("inc:") {
            gate_include_case(rest.parse().unwrap_or(0), obs);
            return;
        }
        if let Some(s) = input.strip_prefix("s:") {
            gate_text_case(s, obs);
            return;
        }
        if let Some(s) = input.strip_prefix("lex:") {
            // explicit text with the malformed lexeme between ⟦ and ⟧
            // `lex:<class>:<text>` with the malformed lexeme between ⟦ and ⟧
            let (class, s) = s.split_once(':').unwrap_or(("explicit", s));
            if let (Some(a), Some(b)) = (s.find('⟦'), s.find('⟧')) {
                let text = format!("{}{}{}", &s[..a], &s[a + 3..b], &s[b + 3..]);
                check_splice(&text, (a, b - 3), class, "explicit", obs);
            } else {
                obs.inconclusive("no ⟦…⟧ marker");
            }
            return;
        }
        obs.inconclusive("unrecognised input spec");
    }
    fn mandatory_classes(&self, _tier: Tier) -> Vec<&'static str> {
        vec!["gated", "analysis-ran", "lexical-error-no-tree", "include-chain:error-in-include-depth-2", "include-chain:no-error"]
    }
}

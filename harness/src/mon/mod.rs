use crate::worker::Property;

pub mod c14;
pub mod c19;
pub mod c20;

pub fn all() -> Vec<Box<dyn Property>> {
    vec![Box::new(c14::C14), Box::new(c19::C19), Box::new(c20::C20)]
}

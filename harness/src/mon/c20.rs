//! C20 — type promotion is a join on the numeric tower and never narrows.
//!
//! Exhaustive over a finite abstraction of the type space; the reference lattice is written from
//! the property text, not from `oq3_semantics::types`.

use crate::worker::{guard, Obs, Property, Stream, Tier};
use oq3_semantics::asg::{implicit_cast_type, ArithOp};
use oq3_semantics::types::{self, ArrayDims, IsConst, SubroutineDef, Type};

pub struct C20;

const WIDTHS: &[Option<u32>] = &[None, Some(1), Some(8), Some(32), Some(64), Some(128), Some(u32::MAX)];

fn c(b: bool) -> IsConst {
    if b {
        IsConst::True
    } else {
        IsConst::False
    }
}

pub fn type_space() -> Vec<Type> {
    let mut v = Vec::new();
    let dims = [ArrayDims::D1(4), ArrayDims::D2(2, 3), ArrayDims::D3(2, 2, 2)];
    for k in [false, true] {
        v.push(Type::Bit(c(k)));
        v.push(Type::Bool(c(k)));
        v.push(Type::Duration(c(k)));
        v.push(Type::Stretch(c(k)));
        for w in WIDTHS {
            v.push(Type::Int(*w, c(k)));
            v.push(Type::UInt(*w, c(k)));
            v.push(Type::Float(*w, c(k)));
            v.push(Type::Angle(*w, c(k)));
            v.push(Type::Complex(*w, c(k)));
        }
        for d in &dims {
            v.push(Type::BitArray(d.clone(), c(k)));
        }
    }
    v.push(Type::Qubit);
    v.push(Type::HardwareQubit);
    for d in &dims {
        v.push(Type::QubitArray(d.clone()));
        v.push(Type::IntArray(d.clone()));
        v.push(Type::UIntArray(d.clone()));
        v.push(Type::FloatArray(d.clone()));
        v.push(Type::AngleArray(d.clone()));
        v.push(Type::ComplexArray(d.clone()));
        v.push(Type::BoolArray(d.clone()));
        v.push(Type::DurationArray(d.clone()));
    }
    v.push(Type::Gate(1, 2));
    v.push(Type::Gate(0, 1));
    v.push(Type::SubroutineDef(SubroutineDef {
        num_params: 1,
        return_type: Box::new(Type::Void),
    }));
    v.push(Type::Range);
    v.push(Type::Set);
    v.push(Type::Void);
    v.push(Type::ToDo);
    v.push(Type::Undefined);
    v
}

// ---- the reference lattice (from the property text) ----

#[derive(Clone, Copy, PartialEq, Eq, Debug)]
enum Kind {
    Int,
    UInt,
    Float,
    Complex,
}

fn tower(t: &Type) -> Option<(Kind, Option<u32>, bool)> {
    match t {
        Type::Int(w, k) => Some((Kind::Int, *w, matches!(k, IsConst::True))),
        Type::UInt(w, k) => Some((Kind::UInt, *w, matches!(k, IsConst::True))),
        Type::Float(w, k) => Some((Kind::Float, *w, matches!(k, IsConst::True))),
        Type::Complex(w, k) => Some((Kind::Complex, *w, matches!(k, IsConst::True))),
        _ => None,
    }
}

fn level(k: Kind) -> u8 {
    match k {
        Kind::Int | Kind::UInt => 0,
        Kind::Float => 1,
        Kind::Complex => 2,
    }
}

/// kind `r` is at or above kind `a` in the order int, uint < float < complex.
fn kind_above(r: Kind, a: Kind) -> bool {
    r == a || level(r) > level(a)
}

/// width `r` is at or above `a`: no width is above every width.
fn width_above(r: Option<u32>, a: Option<u32>) -> bool {
    match (r, a) {
        (None, _) => true,
        (Some(_), None) => false,
        (Some(x), Some(y)) => x >= y,
    }
}

fn constructor(t: &Type) -> &'static str {
    match t {
        Type::Bit(_) => "Bit",
        Type::Qubit => "Qubit",
        Type::HardwareQubit => "HardwareQubit",
        Type::Int(..) => "Int",
        Type::UInt(..) => "UInt",
        Type::Float(..) => "Float",
        Type::Angle(..) => "Angle",
        Type::Complex(..) => "Complex",
        Type::Bool(_) => "Bool",
        Type::Duration(_) => "Duration",
        Type::Stretch(_) => "Stretch",
        Type::BitArray(..) => "BitArray",
        Type::QubitArray(_) => "QubitArray",
        Type::IntArray(_) => "IntArray",
        Type::UIntArray(_) => "UIntArray",
        Type::FloatArray(_) => "FloatArray",
        Type::AngleArray(_) => "AngleArray",
        Type::ComplexArray(_) => "ComplexArray",
        Type::BoolArray(_) => "BoolArray",
        Type::DurationArray(_) => "DurationArray",
        Type::Gate(..) => "Gate",
        Type::SubroutineDef(_) => "SubroutineDef",
        Type::Range => "Range",
        Type::Set => "Set",
        Type::Void => "Void",
        Type::ToDo => "ToDo",
        Type::Undefined => "Undefined",
    }
}

/// The type with its const flag cleared (own implementation).
fn strip_const(t: &Type) -> Type {
    let f = IsConst::False;
    match t {
        Type::Bit(_) => Type::Bit(f),
        Type::Int(w, _) => Type::Int(*w, f),
        Type::UInt(w, _) => Type::UInt(*w, f),
        Type::Float(w, _) => Type::Float(*w, f),
        Type::Angle(w, _) => Type::Angle(*w, f),
        Type::Complex(w, _) => Type::Complex(*w, f),
        Type::Bool(_) => Type::Bool(f),
        Type::Duration(_) => Type::Duration(f),
        Type::Stretch(_) => Type::Stretch(f),
        Type::BitArray(d, _) => Type::BitArray(d.clone(), f),
        other => other.clone(),
    }
}

/// Has a const flag, and it is set.
fn flag_const(t: &Type) -> Option<bool> {
    match t {
        Type::Bit(k)
        | Type::Int(_, k)
        | Type::UInt(_, k)
        | Type::Float(_, k)
        | Type::Angle(_, k)
        | Type::Complex(_, k)
        | Type::Bool(k)
        | Type::Duration(k)
        | Type::Stretch(k)
        | Type::BitArray(_, k) => Some(matches!(k, IsConst::True)),
        _ => None,
    }
}

fn is_void(t: &Type) -> bool {
    matches!(t, Type::Void)
}

/// Check the clauses for a "common type" function `f` on the ordered pair (a, b).
fn check_common(fname: &str, a: &Type, b: &Type, r_ab: &Type, r_ba: &Type, demand_idempotent: bool, demand_void: bool, obs: &mut Obs) {
    let ca = constructor(a);
    let cb = constructor(b);
    let cell = |clause: &str| format!("{fname}/{ca}/{cb}/{clause}");
    let show = || format!("{fname}({a:?}, {b:?}) = {r_ab:?}; reversed = {r_ba:?}");
    // symmetric up to const-ness
    if strip_const(r_ab) != strip_const(r_ba) {
        obs.violate(cell("asymmetric"), show());
    }
    // equal types give the type itself
    if demand_idempotent && a == b && r_ab != a {
        obs.violate(cell("not-idempotent"), show());
    }
    let same_up_to_const = strip_const(a) == strip_const(b);
    match (tower(a), tower(b)) {
        (Some((ka, wa, _)), Some((kb, wb, _))) => {
            // a bound exists for every pair of tower types
            if is_void(r_ab) {
                let sub = if level(ka) == 0 && level(kb) == 0 && ka != kb {
                    "int-uint"
                } else if ka == Kind::Complex && kb == Kind::Complex {
                    "complex-widths"
                } else {
                    "other"
                };
                obs.violate(cell(&format!("void-for-bounded-pair:{sub}")), show());
            } else {
                match tower(r_ab) {
                    None => obs.violate(cell("result-not-in-tower"), show()),
                    Some((kr, wr, _)) => {
                        if !kind_above(kr, ka) || !kind_above(kr, kb) {
                            obs.violate(cell("not-upper-bound-kind"), show());
                        }
                        // within one kind the width order applies
                        if kr == ka && !width_above(wr, wa) {
                            obs.violate(cell("not-upper-bound-width"), show());
                        }
                        if kr == kb && !width_above(wr, wb) {
                            obs.violate(cell("not-upper-bound-width"), show());
                        }
                    }
                }
            }
        }
        _ => {
            if same_up_to_const {
                // bound is the type itself
                if strip_const(r_ab) != strip_const(a) && demand_idempotent {
                    obs.violate(cell("equal-up-to-const-not-itself"), show());
                }
            } else if ca != cb && demand_void {
                // different constructors, not both in the tower: no bound
                if !is_void(r_ab) {
                    obs.violate(cell("non-void-for-unbounded-pair"), show());
                }
            }
            // same constructor, different width/dims outside the tower: not demanded
        }
    }
    // const only if both operands are
    if let Some(true) = flag_const(r_ab) {
        let both = a.is_const() && b.is_const();
        let both_flag = flag_const(a).unwrap_or(true) && flag_const(b).unwrap_or(true);
        if !(both && both_flag) {
            let sub = if same_up_to_const {
                "equal-up-to-const"
            } else if ca != cb {
                "cross-kind"
            } else {
                "same-kind"
            };
            obs.violate(cell(&format!("const-although-operand-is-not:{sub}")), show());
        }
    }
}

fn check_pair(a: &Type, b: &Type, obs: &mut Obs) {
    let ca = constructor(a);
    let cb = constructor(b);
    let r = guard(|| {
        (
            types::promote_types(a, b),
            types::promote_types(b, a),
            types::promote_types_not_equal(a, b),
            types::promote_types_not_equal(b, a),
            types::can_cast_literal(a, b),
            types::equal_base_type(a, b),
        )
    });
    let (p_ab, p_ba, n_ab, n_ba, lit, ebt) = match r {
        Ok(x) => x,
        Err(p) => {
            obs.violate(format!("panic/{}", p.site()), format!("({a:?}, {b:?}): {}", p.msg));
            obs.done(true);
            return;
        }
    };
    obs.fp.str(&format!("{a:?}|{b:?}|{p_ab:?}|{lit}"));
    check_common("promote_types", a, b, &p_ab, &p_ba, true, true, obs);
    // (the function presupposes that its arguments are not the same type; two types that differ in the
    // const flag only are different types, and the const clause applies to them as to any pair)
    if a != b {
        check_common("promote_types_not_equal", a, b, &n_ab, &n_ba, false, true, obs);
    }
    // equal_base_type: same constructor
    if ebt != (ca == cb) {
        obs.violate(format!("equal_base_type/{ca}/{cb}/wrong"), format!("equal_base_type({a:?}, {b:?}) = {ebt}"));
    }
    // can_cast_literal(target = a, literal type = b)
    if let (Some((ka, _, _)), Some((kb, _, _))) = (tower(a), tower(b)) {
        let into_int = matches!(ka, Kind::Int | Kind::UInt) && matches!(kb, Kind::Float | Kind::Complex);
        let into_float = ka == Kind::Float && kb == Kind::Complex;
        if (into_int || into_float) && lit {
            obs.violate(format!("can_cast_literal/{ca}/{cb}/allows-downward"), format!("can_cast_literal({a:?}, {b:?}) = true"));
        }
    }
    // superset of promotion into the target: if the common type is the target (up to const), the literal can be cast
    if !is_void(&p_ab) && strip_const(&p_ab) == strip_const(a) && !lit {
        obs.violate(
            format!("can_cast_literal/{ca}/{cb}/not-superset-of-promotion"),
            format!("promote_types({a:?}, {b:?}) = {p_ab:?} (the target) but can_cast_literal = false"),
        );
    }
    // implicit_cast_type for every arithmetic operator
    let ops = [
        ArithOp::Add,
        ArithOp::Sub,
        ArithOp::Mul,
        ArithOp::Div,
        ArithOp::Mod,
        ArithOp::Rem,
        ArithOp::Shl,
        ArithOp::Shr,
        ArithOp::BitXOr,
        ArithOp::BitOr,
        ArithOp::BitAnd,
    ];
    for op in &ops {
        let r = guard(|| (implicit_cast_type(op, a, b), implicit_cast_type(op, b, a)));
        match r {
            Ok((i_ab, i_ba)) => {
                let fname = format!("implicit_cast_type.{op:?}");
                // Division always yields at least float, and is defined on pairs outside the
                // numeric tower (duration / duration is a float): idempotence and the
                // "no common type" clause are not demanded for Div.
                let not_div = !matches!(op, ArithOp::Div);
                check_common(&fname, a, b, &i_ab, &i_ba, not_div, not_div, obs);
            }
            Err(p) => obs.violate(format!("panic/{}", p.site()), format!("implicit_cast_type({op:?}, {a:?}, {b:?})")),
        }
    }
    obs.done(true);
}

fn check_triple(a: &Type, b: &Type, c_: &Type, obs: &mut Obs) {
    let r = guard(|| {
        let ab = types::promote_types(a, b);
        let bc = types::promote_types(b, c_);
        let l = types::promote_types(&ab, c_);
        let r = types::promote_types(a, &bc);
        (ab, bc, l, r)
    });
    match r {
        Ok((ab, bc, l, r)) => {
            obs.fp.str(&format!("{a:?}|{b:?}|{c_:?}|{l:?}"));
            // associativity where a common type exists on both paths
            if !is_void(&ab) && !is_void(&bc) && !is_void(&l) && !is_void(&r) && strip_const(&l) != strip_const(&r) {
                obs.violate(
                    format!("promote_types/{}/{}/{}/not-associative", constructor(a), constructor(b), constructor(c_)),
                    format!("(({a:?} ∨ {b:?}) ∨ {c_:?}) = {l:?} but ({a:?} ∨ ({b:?} ∨ {c_:?})) = {r:?}"),
                );
            }
            // const only if all three are
            if let Some(true) = flag_const(&l) {
                if !(a.is_const() && b.is_const() && c_.is_const()) {
                    // already reported pairwise; counted only
                    obs.count("triple:const-flag-leak(seen pairwise)");
                }
            }
            obs.done(!is_void(&l));
        }
        Err(p) => {
            obs.violate(format!("panic/{}", p.site()), format!("triple ({a:?},{b:?},{c_:?})"));
            obs.done(true);
        }
    }
}

// ---------------------------------------------------------------- literal castability at the declaration entry point
//
// The clause "literal castability … never allows float or complex into an integer target or complex
// into a float target" is also observed where the front end applies it: `T tgt = <literal>;`.

const LIT_TARGETS: &[&str] = &["int", "int[8]", "int[64]", "uint", "uint[16]", "uint[64]", "float", "float[32]", "const uint", "const int[32]", "const float[64]"];
const LIT_VALUES: &[(&str, &str)] = &[("2.5", "float"), ("1e3", "float"), ("-2.5", "float"), (".5", "float"), ("2.5im", "complex"), ("-1.5im", "complex"), ("1e1 im", "complex")];

fn literal_decl_case(i: usize, obs: &mut Obs) {
    let t = LIT_TARGETS[i % LIT_TARGETS.len()];
    let (lit, kind) = LIT_VALUES[(i / LIT_TARGETS.len()) % LIT_VALUES.len()];
    let integer_target = t.contains("int");
    if !integer_target && kind == "float" {
        obs.done(false);
        return;
    }
    let src = format!("{t} tgt = {lit};\n");
    obs.fp.str(&src);
    let r = guard(|| {
        let res = oq3_semantics::syntax_to_semantics::parse_source_string(&src, Some("c20.qasm"));
        let kinds: Vec<String> = res.semantic_errors().iter().map(|e| format!("{:?}", e.kind())).collect();
        (res.any_syntax_errors(), kinds)
    });
    match r {
        Err(p) => obs.inconclusive(format!("analysis panicked (C03): {}", p.site())),
        Ok((true, _)) => obs.inconclusive("rejected by the parser (C04)"),
        Ok((false, kinds)) => {
            if !kinds.iter().any(|k| k == "IncompatibleTypesError" || k == "CastError") {
                let tk = if integer_target { "integer" } else { "float" };
                obs.violate(
                    format!("declaration-literal-cast/{kind}-literal-into-{tk}-target/accepted"),
                    format!("{src:?}: accepted without a type diagnostic (diagnostics {kinds:?})"),
                );
            }
            obs.note = format!("{:?}: diagnostics {kinds:?}", src.trim());
            obs.done(true);
        }
    }
}

impl Property for C20 {
    fn id(&self) -> &'static str {
        "C20"
    }
    fn rule(&self) -> &'static str {
        "Exhaustive over a finite abstraction of the type space: all 27 type constructors x widths {none,1,8,32,64,128,2^32-1} x const flag x array shapes {1,2,3 dims}. One evaluation = one ordered pair (a,b), on which promote_types, promote_types_not_equal, can_cast_literal, equal_base_type and implicit_cast_type for all 11 arithmetic operators are called and compared with the reference lattice written from the property text (quick: all ordered pairs; thorough: additionally all ordered triples for associativity, one row of triples per case). Non-trivial: every pair; a triple is non-trivial when a common type exists. Distinct: fingerprint of (a, b, results)."
    }
    fn streams(&self, tier: Tier, _seed: u64) -> Vec<Stream> {
        let n = type_space().len() as u64;
        let mut v = vec![Stream::new("all-ordered-pairs(row per case)", n, true, |i| format!("row:{i}"))];
        // (1.6 million triples: a few seconds; both tiers run them)
        let _ = tier;
        v.push(Stream::new("all-ordered-triples(row per case)", n * n, true, |i| format!("trow:{i}")));
        v.push(Stream::new("literal-castability-at-declarations", (LIT_TARGETS.len() * LIT_VALUES.len()) as u64, true, |i| format!("lit:{i}")));
        v
    }
    fn check(&self, input: &str, obs: &mut Obs) {
        let space = type_space();
        let n = space.len();
        if let Some(rest) = input.strip_prefix("lit:") {
            literal_decl_case(rest.parse().unwrap_or(0), obs);
            return;
        }
        if let Some(rest) = input.strip_prefix("row:") {
            let i: usize = rest.parse().unwrap();
            for b in &space {
                check_pair(&space[i], b, obs);
            }
            obs.note = format!("{:?} against all {n} types: lattice clauses hold", space[i]);
            return;
        }
        if let Some(rest) = input.strip_prefix("trow:") {
            let k: usize = rest.parse().unwrap();
            let (i, j) = (k / n, k % n);
            for c_ in &space {
                check_triple(&space[i], &space[j], c_, obs);
            }
            obs.note = format!("({:?}, {:?}) with all {n} third operands", space[i], space[j]);
            return;
        }
        if let Some(rest) = input.strip_prefix("types:") {
            // two types given by their Debug text, e.g. `types:Int(Some(8), True)|Float(None, False)`
            let mut it = rest.split('|');
            let find = |d: &str| space.iter().find(|t| format!("{t:?}") == d.trim());
            match (it.next().and_then(find), it.next().and_then(find)) {
                (Some(a), Some(b)) => {
                    check_pair(a, b, obs);
                    obs.note = format!("({a:?}, {b:?})");
                }
                _ => obs.inconclusive("type not in the space"),
            }
            return;
        }
        if let Some(rest) = input.strip_prefix("pair:") {
            let mut it = rest.split(':');
            let i: usize = it.next().unwrap().parse().unwrap();
            let j: usize = it.next().unwrap().parse().unwrap();
            check_pair(&space[i], &space[j], obs);
            obs.note = format!("({:?}, {:?})", space[i], space[j]);
            return;
        }
        obs.inconclusive("unrecognised input spec");
    }
}

//! C05 — the AST mirrors the program's derivation: precedence, associativity, roles.

use super::astcmp::{cmp_stmts, Mismatch};
use super::c04::{diagnostics, EXPR_POSITIONS};
use crate::gen::modelgen::{GenCfg, MG};
use crate::model::*;
use crate::model_shrink::*;
use crate::rng::{mix, Rng};
use crate::worker::{guard, Obs, Property, Stream, Tier};
use oq3_syntax::SourceFile;

pub struct C05;

const POSITIONS: &[&str] = &["initializer", "condition", "call-argument", "index"];

fn place(next: &mut Id, pos: &str, e: E) -> Vec<S> {
    let mut nid = || {
        *next += 1;
        *next
    };
    let mut ex = |k: EK, id: Id| E { id, k };
    match pos {
        "initializer" => vec![S { id: nid(), k: SK::Decl(false, MTy::new(Base::Float, Some(64)), "v".into(), Some(e)) }],
        "condition" => vec![S { id: nid(), k: SK::If(e, Body::Block(vec![]), None) }],
        "call-argument" => {
            let one = ex(EK::Int("1".into()), nid());
            let c = ex(EK::Call("f".into(), vec![one, e]), nid());
            vec![S { id: nid(), k: SK::ExprStmt(c) }]
        }
        _ => {
            let b = ex(EK::Ident("arr".into()), nid());
            let ix = ex(EK::Index(Box::new(b), vec![MIndex::List(vec![e])]), nid());
            vec![S { id: nid(), k: SK::Decl(false, MTy::new(Base::Int, None), "v".into(), Some(ix)) }]
        }
    }
}

/// Parse `text` and compare with the model; Ok(None) = equal, Ok(Some(m)) = mismatch,
/// Err = rejected by the parser / panic in an accessor.
enum Outcome {
    Same,
    Differs(Mismatch),
    Rejected(Vec<String>),
    Panic(String, String),
}

fn compare(prog: &[S], text: &str) -> Outcome {
    match diagnostics(text) {
        Ok((0, _)) => {}
        Ok((_, msgs)) => return Outcome::Rejected(msgs),
        Err(site) => return Outcome::Panic(site, "parse".into()),
    }
    match guard(|| {
        let p = SourceFile::parse(text);
        cmp_stmts(prog, p.tree().statements().collect(), "file")
    }) {
        Ok(Ok(())) => Outcome::Same,
        Ok(Err(m)) => Outcome::Differs(m),
        Err(p) => Outcome::Panic(p.site(), format!("{}:{} {}", p.file, p.line, p.msg)),
    }
}

fn layouts(seed: u64) -> Vec<(&'static str, Layout)> {
    vec![
        ("minimal-parens", Layout { trivia: Trivia::Sparse, redundant_parens: 0, paren_assign_rhs: true, paren_deviating: false, trailing_commas: 0, seed }),
        ("redundant-parens", Layout { trivia: Trivia::Lines, redundant_parens: 35, paren_assign_rhs: true, paren_deviating: false, trailing_commas: 0, seed: seed ^ 7 }),
        ("dense-trivia", Layout { trivia: Trivia::Dense, redundant_parens: 10, paren_assign_rhs: true, paren_deviating: false, trailing_commas: 0, seed: seed ^ 9 }),
    ]
}

/// Returns the first non-equal outcome over the layouts.
fn check_all_layouts(prog: &[S], seed: u64) -> Option<(String, String, Outcome)> {
    for (ln, lay) in layouts(seed) {
        let p = print_program(prog, &lay);
        match compare(prog, &p.text) {
            Outcome::Same => {}
            o => return Some((ln.to_string(), p.text, o)),
        }
    }
    None
}

fn leaf(next: &mut Id, n: &str) -> E {
    *next += 1;
    E { id: *next, k: EK::Ident(n.to_string()) }
}

fn bin(next: &mut Id, op: BinOp, l: E, r: E) -> E {
    *next += 1;
    E { id: *next, k: EK::Binary(op, Box::new(l), Box::new(r)) }
}

fn un(next: &mut Id, op: UnOp, a: E) -> E {
    *next += 1;
    E { id: *next, k: EK::Unary(op, Box::new(a)) }
}

fn postfix(next: &mut Id, kind: usize, name: &str) -> E {
    let a = leaf(next, name);
    *next += 10;
    let id = *next;
    match kind {
        0 => E { id, k: EK::Call(format!("f{name}"), vec![a]) },
        1 => {
            let i = E { id: id + 1, k: EK::Int("2".into()) };
            E { id, k: EK::Index(Box::new(a), vec![MIndex::List(vec![i])]) }
        }
        2 => E { id, k: EK::Cast(MTy::new(Base::Int, Some(8)), Box::new(a)) },
        3 => E { id, k: EK::Cast(MTy::new(Base::Float, None), Box::new(a)) },
        _ => {
            let c = E { id: id + 2, k: EK::Call(format!("g{name}"), vec![a]) };
            let i = E { id: id + 1, k: EK::Int("3".into()) };
            E { id, k: EK::Index(Box::new(c), vec![MIndex::List(vec![i])]) }
        }
    }
}

const UNOPS: [UnOp; 3] = [UnOp::Neg, UnOp::BitNot, UnOp::Not];

fn run_cell(cell: String, prog: Vec<S>, seed: u64, obs: &mut Obs) {
    obs.fp.str(&cell);
    obs.fp.str(&skel_program(&prog));
    match check_all_layouts(&prog, seed) {
        None => {
            let lay = Layout::plain();
            obs.note = format!("{}: AST equals the derivation under 3 layouts", print_program(&prog, &lay).text.trim());
            obs.done(true);
        }
        Some((ln, text, Outcome::Differs((role, d)))) => {
            obs.violate(format!("{cell}"), format!("layout {ln}: {:?}: role {role}: {d}", text.trim()));
            obs.done(true);
        }
        Some((ln, text, Outcome::Panic(site, d))) => {
            obs.violate(format!("{cell}/accessor-panic"), format!("layout {ln}: {:?}: {site} {d}", text.trim()));
            obs.done(true);
        }
        Some((_, text, Outcome::Rejected(msgs))) => {
            obs.inconclusive(format!("program rejected by the parser (C04): {:?} {:?}", text.trim(), msgs.first()));
            obs.count("rejected-by-parser");
        }
        Some((_, _, Outcome::Same)) => unreachable!(),
    }
}

fn roles_cell(role: &str) -> String {
    // drop list indices and nested prefixes down to the innermost role
    let inner = role.rsplit('>').next().unwrap_or(role);
    format!("role/{inner}")
}

fn check_roles(prog: &[S], seed: u64, stream: &str, obs: &mut Obs) {
    obs.fp.str(&skel_program(prog));
    for s in prog {
        obs.count(&format!("stmt:{}", stmt_kind_name(&s.k)));
    }
    match check_all_layouts(prog, seed) {
        None => {
            obs.note = format!("{} statements: every typed accessor returned the constituent of the derivation", prog.len());
            obs.done(true);
        }
        Some((_, text, Outcome::Rejected(msgs))) => {
            obs.inconclusive(format!("program rejected by the parser (C04): {:?}", msgs.first()));
            let _ = text;
            obs.count("rejected-by-parser");
        }
        Some((ln, _, first)) => {
            // shrink while the same kind of outcome persists
            let is_panic = matches!(first, Outcome::Panic(..));
            let mut pred = |p: &[S]| match check_all_layouts(p, seed) {
                Some((_, _, Outcome::Differs(_))) => !is_panic,
                Some((_, _, Outcome::Panic(..))) => is_panic,
                _ => false,
            };
            let min = shrink_program(prog, &mut pred, 1200);
            let (text, role, d) = match check_all_layouts(&min, seed) {
                Some((_, t, Outcome::Differs((r, d)))) => (t, r, d),
                Some((_, t, Outcome::Panic(s, d))) => (t, format!("accessor-panic/{s}"), d),
                _ => (String::new(), "?".into(), String::new()),
            };
            obs.violate(format!("{}/{}", roles_cell(&role), skel_program(&min)), format!("[{stream}] layout {ln}: {:?}: role {role}: {d}", text.trim()));
            obs.done(true);
        }
    }
}

/// Operators whose mutual precedence/associativity agrees with the OpenQASM table in this parser
/// (the `avoid` profile of the random streams); the others are covered cell by cell in the matrix.
pub const AGREEING_OPS: &[BinOp] = &[BinOp::Mul, BinOp::Div, BinOp::Rem, BinOp::Add, BinOp::Sub, BinOp::Shl, BinOp::Shr, BinOp::Lt, BinOp::Le, BinOp::Gt, BinOp::Ge, BinOp::And, BinOp::Or];

fn random_expr(g: &mut MG, d: u32, ops: &[BinOp]) -> E {
    if d == 0 || g.r.chance(1, 4) {
        return if g.r.chance(2, 3) { g.ident() } else { g.literal() };
    }
    match g.r.below(10) {
        0..=5 => {
            let op = *g.r.pick(ops);
            let l = random_expr(g, d - 1, ops);
            let r = random_expr(g, d - 1, ops);
            g.e(EK::Binary(op, Box::new(l), Box::new(r)))
        }
        6 => {
            let op = *g.r.pick(&[UnOp::Neg, UnOp::Not, UnOp::BitNot]);
            let a = random_expr(g, d - 1, ops);
            g.e(EK::Unary(op, Box::new(a)))
        }
        7 => {
            let t = g.ty();
            let a = random_expr(g, d - 1, ops);
            g.e(EK::Cast(t, Box::new(a)))
        }
        8 => {
            let n = g.name();
            let k = g.r.range(0, 3);
            let args: Vec<E> = (0..k).map(|_| random_expr(g, d - 1, ops)).collect();
            g.e(EK::Call(n, args))
        }
        _ => {
            let b = g.ident();
            let i = random_expr(g, d - 1, ops);
            g.e(EK::Index(Box::new(b), vec![MIndex::List(vec![i])]))
        }
    }
}

impl Property for C05 {
    fn id(&self) -> &'static str {
        "C05"
    }
    fn rule(&self) -> &'static str {
        "Model programs are printed with exactly the parentheses the OpenQASM 3 precedence/associativity table requires (and, in a second and third layout, with redundant parentheses / dense trivia), parsed, and the typed AST is compared with the derivation through the public accessors (ParenExpr dropped). Streams: (a) operator matrix: every ordered pair of the 19 binary operators x nesting side x 4 expression positions; every unary x binary combination in 3 forms; postfix operands (call, indexed identifier, cast with/without width, index of call) under every binary and unary operator; (b) random expression trees of depth <= 6 over the operators whose relative precedence agrees with the table (the others are covered cell by cell in the matrix); (c) statement roles: random model programs with distinct leaves, and tables for if/else body forms x4 (+ else-if), gate signatures 0-4 params x 1-4 qubits, def signatures, modifier chains up to 4, 2- and 3-part ranges, argument/operand lists up to 4. Programs rejected by the parser are inconclusive (C04). Non-trivial: all. Distinct: cell + skeleton."
    }
    fn streams(&self, tier: Tier, seed: u64) -> Vec<Stream> {
        let nb = ALL_BINOPS.len() as u64;
        let np = POSITIONS.len() as u64;
        vec![
            Stream::new("operator-matrix-binary-x-binary", nb * nb * 2 * np, true, move |i| format!("prec:{}:{}:{}:{}", i % nb, (i / nb) % nb, (i / nb / nb) % 2, i / nb / nb / 2)),
            Stream::new("operator-matrix-unary-x-binary", 3 * nb * 3 * np, true, move |i| format!("un:{}:{}:{}:{}", i % 3, (i / 3) % nb, (i / 3 / nb) % 3, i / 9 / nb)),
            Stream::new("postfix-operands", 5 * (nb + 3) * 2, true, move |i| format!("post:{}:{}:{}", i % 5, (i / 5) % (nb + 3), i / 5 / (nb + 3))),
            Stream::new("role-tables", 4 * 2 + 5 * 4 + 30 + 16 + 8 + 2 + 2, true, |i| format!("table:{i}")),
            Stream::new("long-left-nested-operator-chains", AGREEING_OPS.len() as u64 * 39 * np, true, move |i| {
                let nops = AGREEING_OPS.len() as u64;
                format!("chain:{}:{}:{}", i % nops, 2 + (i / nops) % 39, i / nops / 39)
            }),
            Stream::new("array-declaration-roles", (2 * ARRAY_DECLS.len() * ARRAY_WRAPS.len()) as u64, true, |i| format!("arr:{i}")),
            Stream::new("empty-statement-bodies", (EMPTY_BODY_CASES.len() * EMPTY_BODY_WRAPS.len()) as u64, true, |i| format!("empty:{i}")),
            Stream::new("random-expression-trees", tier.pick(20_000, 1_000_000), false, move |i| format!("rexpr:{}", mix(&[seed, 0xC05, 1, i]))),
            Stream::new("random-programs-roles", tier.pick(15_000, 800_000), false, move |i| format!("roles:{}", mix(&[seed, 0xC05, 2, i]))),
        ]
    }
    fn check(&self, input: &str, obs: &mut Obs) {
        let parts: Vec<&str> = input.split(':').collect();
        let num = |i: usize| -> u64 { parts.get(i).and_then(|x| x.parse().ok()).unwrap_or(0) };
        let mut next: Id = 0;
        match parts[0] {
            "prec" => {
                let outer = ALL_BINOPS[num(1) as usize % 19];
                let inner = ALL_BINOPS[num(2) as usize % 19];
                let side = if num(3) == 0 { "left" } else { "right" };
                let pos = POSITIONS[num(4) as usize % POSITIONS.len()];
                let (a, b, c) = (leaf(&mut next, "a"), leaf(&mut next, "b"), leaf(&mut next, "c"));
                let e = if side == "left" {
                    let i = bin(&mut next, inner, a, b);
                    bin(&mut next, outer, i, c)
                } else {
                    let i = bin(&mut next, inner, b, c);
                    bin(&mut next, outer, a, i)
                };
                let prog = place(&mut next, pos, e);
                obs.class("matrix");
                run_cell(format!("prec/{}/{}/{side}", outer.text(), inner.text()), prog, 5, obs);
            }
            "un" => {
                let u = UNOPS[num(1) as usize % 3];
                let op = ALL_BINOPS[num(2) as usize % 19];
                let form = num(3) % 3;
                let pos = POSITIONS[num(4) as usize % POSITIONS.len()];
                let (a, b) = (leaf(&mut next, "a"), leaf(&mut next, "b"));
                let (e, fname) = match form {
                    0 => {
                        let ua = un(&mut next, u, a);
                        (bin(&mut next, op, ua, b), "unary-is-left-operand")
                    }
                    1 => {
                        let i = bin(&mut next, op, a, b);
                        (un(&mut next, u, i), "unary-of-binary")
                    }
                    _ => {
                        let ub = un(&mut next, u, b);
                        (bin(&mut next, op, a, ub), "unary-is-right-operand")
                    }
                };
                let prog = place(&mut next, pos, e);
                run_cell(format!("unary/{}/{}/{fname}", u.text(), op.text()), prog, 6, obs);
            }
            "post" => {
                let kind = num(1) as usize % 5;
                let k = num(2) as usize;
                let side = num(3) % 2;
                let kname = ["call", "indexed-identifier", "cast-width", "cast", "index-of-call"][kind];
                let p = postfix(&mut next, kind, "a");
                let b = leaf(&mut next, "b");
                let (e, oname) = if k < 19 {
                    let op = ALL_BINOPS[k];
                    (if side == 0 { bin(&mut next, op, p, b) } else { bin(&mut next, op, b, p) }, op.text().to_string())
                } else {
                    let u = UNOPS[(k - 19) % 3];
                    (un(&mut next, u, p), format!("unary{}", u.text()))
                };
                let prog = place(&mut next, "initializer", e);
                run_cell(format!("postfix/{kname}/{oname}/{}", if side == 0 { "left" } else { "right" }), prog, 7, obs);
            }
            "table" => {
                let i = num(1);
                let mut r = Rng::new(mix(&[0xC05, 77, i]));
                let mut g = MG::new(&mut r, GenCfg { unique_leaves: true, syn_safe: true, ..GenCfg::syntax() });
                let prog = restrict_ops(role_table_case(&mut g, i));
                obs.class("role-table");
                check_roles(&prog, i, "role-table", obs);
            }
            "chain" => {
                // a1 op a2 op … op an nests to the left, whatever its length, in every position
                let op = AGREEING_OPS[num(1) as usize % AGREEING_OPS.len()];
                let n = num(2).clamp(2, 64) as usize;
                let pos = POSITIONS[num(3) as usize % POSITIONS.len()];
                let mut e = leaf(&mut next, "a1");
                for k in 2..=n {
                    let r = leaf(&mut next, &format!("a{k}"));
                    e = bin(&mut next, op, e, r);
                }
                let prog = place(&mut next, pos, e);
                run_cell(format!("chain/{}/len{}/{pos}", op.text(), if n < 8 { "<8" } else if n < 16 { "8..15" } else { ">=16" }), prog, 3, obs);
            }
            "empty" => empty_body_case(num(1) as usize, obs),
            "arr" => array_decl_case(num(1) as usize, obs),
            "rexpr" => {
                let mut r = Rng::new(num(1));
                let mut g = MG::new(&mut r, GenCfg { unique_leaves: true, ..GenCfg::syntax() });
                let e = random_expr(&mut g, 6, AGREEING_OPS);
                let pos = *g.r.pick(POSITIONS);
                let mut next = g.next_id + 100;
                let prog = place(&mut next, pos, e);
                check_roles(&prog, num(1), "random-expression", obs);
            }
            "roles" => {
                let mut r = Rng::new(num(1));
                let mut g = MG::new(&mut r, GenCfg { unique_leaves: true, syn_safe: true, sem_safe: false, ..GenCfg::syntax() });
                let prog = g.program();
                let prog = restrict_ops(prog);
                check_roles(&prog, num(1), "random-program", obs);
            }
            _ => {
                let _ = EXPR_POSITIONS;
                obs.inconclusive("unrecognised input spec")
            }
        }
    }
    fn mandatory_classes(&self, _tier: Tier) -> Vec<&'static str> {
        vec!["matrix", "role-table"]
    }
}

// ---------------------------------------------------------------- empty-statement bodies
//
// The model has no empty statement, so the roles of if/else with an empty statement `;` as one of
// the bodies are checked on a hand-written table: the statement after `else` is the else branch,
// the (empty) statement after `)` is the then branch - which has no node.

/// (source, then-branch text or "", is block, else-branch text or "", is block)
const EMPTY_BODY_CASES: &[(&str, &str, bool, &str, bool)] = &[
    ("if (c) ; else y q;", "", false, "y q;", false),
    ("if (c) ; else { y q; }", "", false, "{ y q; }", true),
    ("if (c) ; else if (d) y q;", "", false, "if (d) y q;", false),
    ("if (c) x q; else ;", "x q;", false, "", false),
    ("if (c) { x q; } else ;", "{ x q; }", true, "", false),
    ("if (c) ;", "", false, "", false),
    ("if (c) ; else ;", "", false, "", false),
    ("if (c) /* then */ ; /* between */ else /* else */ y q;", "", false, "y q;", false),
];
const EMPTY_BODY_WRAPS: &[(&str, &str)] = &[("", ""), ("while (w) { ", " }"), ("gate gg qq { ", " }"), ("x q0; ", " z q1;")];

/// Array declarations (the statement model has no array types): const flag, element type, dimensions,
/// name and initializer read through the accessors of ClassicalDeclarationStatement.
/// (element type, dimension list, number of elements of a flat brace initializer or 0 for none / 100+n for n nested rows)
const ARRAY_DECLS: &[(&str, &str, usize)] = &[
    ("int[8]", "1", 1), ("int[8]", "2", 2), ("int[8]", "3", 3), ("float[64]", "1", 1), ("uint", "4", 0), ("bool", "2", 2), ("angle[16]", "1", 1),
    ("int[8]", "2, 2", 102), ("float[32]", "1, 1", 101), ("complex[float[64]]", "2", 2), ("duration", "1", 1), ("bit", "3", 3),
];
const ARRAY_WRAPS: &[(&str, &str)] = &[("", ""), ("if (c) { ", " }"), ("def f() { ", " }"), ("x q0; ", " z q1;")];

fn array_decl_case(i: usize, obs: &mut Obs) {
    use oq3_syntax::ast::{self, AstNode, HasName};
    use oq3_syntax::HasTextNode;
    let konst = i % 2 == 1;
    let (elem, dims, ninit) = ARRAY_DECLS[(i / 2) % ARRAY_DECLS.len()];
    let (pre, post) = ARRAY_WRAPS[(i / 2 / ARRAY_DECLS.len()) % ARRAY_WRAPS.len()];
    let elems = |n: usize| (0..n).map(|k| (k + 5).to_string()).collect::<Vec<_>>().join(", ");
    let init = match ninit {
        0 => String::new(),
        n if n >= 100 => format!(" = {{{}}}", (0..n - 100).map(|_| format!("{{{}}}", elems(dims.split(',').last().unwrap().trim().parse().unwrap_or(1)))).collect::<Vec<_>>().join(", ")),
        n => format!(" = {{{}}}", elems(n)),
    };
    let text = format!("{pre}{}array[{elem}, {dims}] arr{init};{post}\n", if konst { "const " } else { "" });
    obs.fp.str(&text);
    let r = guard(|| {
        let p = oq3_syntax::SourceFile::parse(&text);
        if !p.errors().is_empty() {
            return Err(format!("{:?}", p.errors().iter().map(|e| e.to_string()).collect::<Vec<_>>()));
        }
        let ds: Vec<ast::ClassicalDeclarationStatement> = p.syntax_node().descendants().filter_map(ast::ClassicalDeclarationStatement::cast).collect();
        let mut bad: Vec<(String, String)> = Vec::new();
        let Some(d) = ds.first() else { return Ok(vec![("declaration-found".to_string(), "no ClassicalDeclarationStatement node".to_string())]) };
        if d.const_token().is_some() != konst {
            bad.push(("const".into(), format!("const_token present: {}", d.const_token().is_some())));
        }
        match d.array_type() {
            None => bad.push(("array-type".into(), "array_type() is None".into())),
            Some(at) => {
                let et = at.scalar_type().map(|t| t.syntax().text().to_string().replace(' ', "")).unwrap_or_default();
                if et != elem {
                    bad.push(("element-type".into(), format!("{et:?} vs {elem:?}")));
                }
                // (the generated accessors `expression_list()` of ArrayType / ArrayLiteral have no node to
                // return in the trees this parser builds - arrays are a stub in this front end; the
                // constituents are counted as child expressions instead)
                let nd = at.syntax().children().filter_map(ast::Expr::cast).count();
                if nd != dims.split(',').count() {
                    bad.push(("dimensions".into(), format!("{nd} dimension expressions, written {dims:?}")));
                }
            }
        }
        let name = d.name().map(|n| n.string()).unwrap_or_default();
        if name != "arr" {
            bad.push(("name".into(), format!("{name:?}")));
        }
        let want_n = if ninit >= 100 { ninit - 100 } else { ninit };
        match (ninit, d.expr()) {
            (0, None) => {}
            (0, Some(e)) => bad.push(("initializer".into(), format!("no initializer written, expr() = {:?}", e.syntax().text().to_string()))),
            (_, Some(ast::Expr::ArrayLiteral(al))) => {
                let n = al.syntax().children().filter_map(ast::Expr::cast).count();
                if n != want_n {
                    bad.push(("initializer-elements".into(), format!("{n} elements, written {want_n}")));
                }
            }
            (_, other) => bad.push(("initializer".into(), format!("expr() is not an array literal: {:?}", other.map(|e| format!("{:?} {:?}", e.syntax().kind(), e.syntax().text().to_string()))))),
        }
        Ok(bad)
    });
    match r {
        Err(p) => obs.inconclusive(format!("parse or accessor panicked: {}", p.site())),
        Ok(Err(msgs)) => obs.inconclusive(format!("rejected by the parser (C04): {msgs}")),
        Ok(Ok(bad)) => {
            for (k, d) in bad {
                obs.violate(format!("role/array-declaration/{k}/{}{}", if konst { "const-" } else { "" }, if ninit >= 100 { "nested".to_string() } else { format!("{ninit}-elements") }), format!("{text:?}: {d}"));
            }
            obs.class("array-declaration");
            obs.done(true);
        }
    }
}

fn empty_body_case(i: usize, obs: &mut Obs) {
    use oq3_syntax::ast::{self, AstNode};
    let (src, then_t, then_blk, else_t, else_blk) = EMPTY_BODY_CASES[i % EMPTY_BODY_CASES.len()];
    let (pre, post) = EMPTY_BODY_WRAPS[(i / EMPTY_BODY_CASES.len()) % EMPTY_BODY_WRAPS.len()];
    let text = format!("{pre}{src}{post}\n");
    obs.fp.str(&text);
    let r = guard(|| {
        let p = oq3_syntax::SourceFile::parse(&text);
        if !p.errors().is_empty() {
            return Err(format!("{:?}", p.errors().iter().map(|e| e.to_string()).collect::<Vec<_>>()));
        }
        let ifs: Vec<ast::IfStmt> = p.syntax_node().descendants().filter_map(ast::IfStmt::cast).collect();
        let Some(first) = ifs.first() else { return Ok(vec![("if-statement-found".to_string(), "no IfStmt node".to_string())]) };
        let t = |n: Option<String>| n.unwrap_or_default();
        let got = [
            ("then-stmt", t(first.then_branch_stmt().map(|s| s.syntax().text().to_string()))),
            ("then-block", t(first.then_branch_block().map(|s| s.syntax().text().to_string()))),
            ("else-stmt", t(first.else_branch_stmt().map(|s| s.syntax().text().to_string()))),
            ("else-block", t(first.else_branch_block().map(|s| s.syntax().text().to_string()))),
        ];
        let want = [
            ("then-stmt", if then_blk { "" } else { then_t }),
            ("then-block", if then_blk { then_t } else { "" }),
            ("else-stmt", if else_blk { "" } else { else_t }),
            ("else-block", if else_blk { else_t } else { "" }),
        ];
        let mut bad = Vec::new();
        for ((k, g), (_, w)) in got.iter().zip(want.iter()) {
            if g != w {
                bad.push((k.to_string(), format!("accessor gives {g:?}, the program has {w:?}")));
            }
        }
        let cond = first.condition().map(|c| c.syntax().text().to_string()).unwrap_or_default();
        if cond != "c" {
            bad.push(("condition".to_string(), format!("condition() gives {cond:?}")));
        }
        Ok(bad)
    });
    match r {
        Err(p) => obs.inconclusive(format!("parse or accessor panicked: {}", p.site())),
        Ok(Err(msgs)) => obs.inconclusive(format!("rejected by the parser (C04/C16): {msgs}")),
        Ok(Ok(bad)) => {
            for (k, d) in bad {
                obs.violate(format!("role/if-empty-body/{k}/case{}", i % EMPTY_BODY_CASES.len()), format!("{text:?}: {d}"));
            }
            obs.class("empty-body");
            obs.note = format!("{text:?}: then {then_t:?}, else {else_t:?}");
            obs.done(true);
        }
    }
}

/// Replace operators outside the agreeing set by `+` (the random role stream is about roles).
fn restrict_ops(prog: Vec<S>) -> Vec<S> {
    fn fe(e: E) -> E {
        let k = match e.k {
            EK::Binary(op, l, r) => {
                let op = if AGREEING_OPS.contains(&op) || op == BinOp::Concat { op } else { BinOp::Add };
                EK::Binary(op, Box::new(fe(*l)), Box::new(fe(*r)))
            }
            EK::Unary(op, a) => EK::Unary(op, Box::new(fe(*a))),
            EK::Cast(t, a) => EK::Cast(t, Box::new(fe(*a))),
            EK::Call(n, a) => EK::Call(n, a.into_iter().map(fe).collect()),
            EK::Index(b, ixs) => EK::Index(
                Box::new(fe(*b)),
                ixs.into_iter()
                    .map(|ix| match ix {
                        MIndex::List(es) => MIndex::List(es.into_iter().map(fe).collect()),
                        MIndex::Set(es) => MIndex::Set(es.into_iter().map(fe).collect()),
                    })
                    .collect(),
            ),
            EK::Measure(q) => EK::Measure(Box::new(fe(*q))),
            EK::Range(a, s, b) => EK::Range(Box::new(fe(*a)), s.map(|x| Box::new(fe(*x))), Box::new(fe(*b))),
            other => other,
        };
        E { id: e.id, k }
    }
    fn fb(b: Body) -> Body {
        match b {
            Body::Block(v) => Body::Block(v.into_iter().map(fs).collect()),
            Body::Single(s) => Body::Single(Box::new(fs(*s))),
        }
    }
    fn fm(m: Modifier) -> Modifier {
        match m {
            Modifier::Pow(e) => Modifier::Pow(fe(e)),
            Modifier::Ctrl(e) => Modifier::Ctrl(e.map(fe)),
            Modifier::NegCtrl(e) => Modifier::NegCtrl(e.map(fe)),
            Modifier::Inv => Modifier::Inv,
        }
    }
    fn fs(s: S) -> S {
        let k = match s.k {
            SK::Decl(c, t, n, i) => SK::Decl(c, t, n, i.map(fe)),
            SK::Gate(n, p, q, b) => SK::Gate(n, p, q, b.into_iter().map(fs).collect()),
            SK::Def(n, p, r, b) => SK::Def(n, p, r, b.into_iter().map(fs).collect()),
            SK::GateCall(m, n, a, o) => SK::GateCall(m.into_iter().map(fm).collect(), n, a.map(|a| a.into_iter().map(fe).collect()), o.into_iter().map(fe).collect()),
            SK::GPhase(m, a) => SK::GPhase(m.into_iter().map(fm).collect(), fe(a)),
            SK::If(c, t, e) => SK::If(fe(c), fb(t), e.map(fb)),
            SK::While(c, b) => SK::While(fe(c), fb(b)),
            SK::For(t, v, it, b) => SK::For(
                t,
                v,
                match it {
                    Iterable::Range(r) => Iterable::Range(fe(r)),
                    Iterable::Set(es) => Iterable::Set(es.into_iter().map(fe).collect()),
                    Iterable::Expr(e) => Iterable::Expr(fe(e)),
                },
                fb(b),
            ),
            SK::Switch(c, cs, d) => SK::Switch(fe(c), cs.into_iter().map(|(v, b)| (v.into_iter().map(fe).collect(), b.into_iter().map(fs).collect())).collect(), d.map(|d| d.into_iter().map(fs).collect())),
            SK::Return(e) => SK::Return(e.map(fe)),
            SK::Assign(t, o, r) => SK::Assign(fe(t), o, fe(r)),
            SK::Alias(n, e) => SK::Alias(n, fe(e)),
            SK::ExprStmt(e) => SK::ExprStmt(fe(e)),
            SK::Delay(d, o) => SK::Delay(fe(d), o),
            other => other,
        };
        S { id: s.id, k }
    }
    prog.into_iter().map(fs).collect()
}

/// Explicit role tables.
fn role_table_case(g: &mut MG, i: u64) -> Vec<S> {
    let mut i = i;
    // (1) if/else body forms: then in {block, single} x else in {block, single}; + else-if x 2 … 8 cases
    if i < 8 {
        let single = |g: &mut MG| Body::Single(Box::new(g.assign()));
        let block = |g: &mut MG| Body::Block(vec![g.assign(), g.gate_call()]);
        let c = g.ident();
        let t = if i & 1 == 0 { block(g) } else { single(g) };
        let e = if i & 2 == 0 { block(g) } else { single(g) };
        let e = if i & 4 == 0 {
            e
        } else {
            let c2 = g.ident();
            let t2 = if i & 1 == 0 { single(g) } else { block(g) };
            let inner = g.s(SK::If(c2, t2, Some(e)));
            Body::Single(Box::new(inner))
        };
        return vec![g.s(SK::If(c, t, Some(e)))];
    }
    i -= 8;
    // (2) gate signatures: 0..=4 params x 1..=4 qubits … 20 cases
    if i < 20 {
        let np = i % 5;
        let nq = 1 + i / 5;
        let ps: Vec<String> = (0..np).map(|_| g.name()).collect();
        let qs: Vec<String> = (0..nq).map(|k| format!("q{k}x{}", g.next_id)).collect();
        let body = vec![g.gate_call()];
        let n = g.name();
        let gate = g.s(SK::Gate(n.clone(), if np == 0 { None } else { Some(ps) }, qs.clone(), body));
        // and a call with as many arguments and operands
        let args: Vec<E> = (0..np).map(|_| g.expr(1)).collect();
        let ops: Vec<E> = qs.iter().map(|q| g.e(EK::Ident(q.clone()))).collect();
        let call = g.s(SK::GateCall(vec![], n, if np == 0 { None } else { Some(args) }, ops));
        return vec![gate, call];
    }
    i -= 20;
    // (3) def signatures, calls with up to 4 arguments … 30 cases
    if i < 30 {
        let np = i % 5;
        let ps: Vec<(Option<MTy>, String)> = (0..np).map(|k| if (i / 5 + k) % 3 == 0 { (None, g.name()) } else { (Some(g.ty()), g.name()) }).collect();
        let ret = if i / 5 % 2 == 0 { Some(g.ty()) } else { None };
        let rv = g.expr(1);
        let body = vec![g.decl(), g.s(SK::Return(Some(rv)))];
        let n = g.name();
        let d = g.s(SK::Def(n.clone(), ps, ret, body));
        let args: Vec<E> = (0..np).map(|_| g.expr(1)).collect();
        let c = g.e(EK::Call(n, args));
        let call = g.s(SK::ExprStmt(c));
        return vec![d, call];
    }
    i -= 30;
    // (4) modifier chains up to 4 … 16 cases
    if i < 16 {
        let n = 1 + i % 4;
        let mods: Vec<Modifier> = (0..n)
            .map(|k| match (i / 4 + k) % 4 {
                0 => Modifier::Inv,
                1 => Modifier::Pow(g.int_lit()),
                2 => Modifier::Ctrl(if k % 2 == 0 { Some(g.int_lit()) } else { None }),
                _ => Modifier::NegCtrl(if k % 2 == 1 { Some(g.int_lit()) } else { None }),
            })
            .collect();
        let ops: Vec<E> = (0..(1 + i % 4)).map(|_| g.operand()).collect();
        let a = g.expr(1);
        return vec![g.s(SK::GateCall(mods, "x".into(), if i % 2 == 0 { Some(vec![a]) } else { None }, ops))];
    }
    i -= 16;
    // (4b) alias declarations at top level and inside a block … 2 cases (indices 74, 75)
    if i < 2 {
        let q = g.operand();
        let q2 = g.operand();
        let rhs = g.e(EK::Binary(BinOp::Concat, Box::new(q), Box::new(q2)));
        let n = g.name();
        let al = g.s(SK::Alias(n, rhs));
        if i == 0 {
            return vec![al];
        }
        let c = g.ident();
        return vec![g.s(SK::If(c, Body::Block(vec![al]), None))];
    }
    i -= 2;
    // (4c) assignments: indexed target with identifier / indexed right-hand side … 2 cases (76, 77)
    if i < 2 {
        let b = g.ident();
        let ix = g.int_lit();
        let t = g.e(EK::Index(Box::new(b), vec![MIndex::List(vec![ix])]));
        let rhs = if i == 0 {
            g.ident()
        } else {
            let b2 = g.ident();
            let ix2 = g.int_lit();
            g.e(EK::Index(Box::new(b2), vec![MIndex::List(vec![ix2])]))
        };
        return vec![g.s(SK::Assign(t, None, rhs))];
    }
    i -= 2;
    // (5) ranges with 2 and 3 parts in for headers and index slices, loop forms … 8 cases
    let (a, b, c) = (g.int_lit(), g.int_lit(), g.int_lit());
    let three = i % 2 == 1;
    let r = g.e(EK::Range(Box::new(a), if three { Some(Box::new(b)) } else { None }, Box::new(c)));
    match i / 2 {
        0 => {
            let t = g.ty();
            let v = g.name();
            let body = if i % 2 == 0 { Body::Block(vec![g.assign()]) } else { Body::Single(Box::new(g.gate_call())) };
            vec![g.s(SK::For(t, v, Iterable::Range(r), body))]
        }
        1 => {
            let base = g.ident();
            let ix = g.e(EK::Index(Box::new(base), vec![MIndex::List(vec![r])]));
            vec![g.s(SK::Decl(false, MTy::new(Base::Bit, Some(4)), "sl".into(), Some(ix)))]
        }
        2 => {
            let cnd = g.ident();
            let body = if i % 2 == 0 { Body::Block(vec![g.assign()]) } else { Body::Single(Box::new(g.assign())) };
            let _ = r;
            vec![g.s(SK::While(cnd, body))]
        }
        _ => {
            let t = g.ty();
            let v = g.name();
            let es: Vec<E> = (0..(1 + i % 4)).map(|_| g.int_lit()).collect();
            let _ = r;
            let gc = g.gate_call();
            vec![g.s(SK::For(t, v, Iterable::Set(es), Body::Block(vec![gc])))]
        }
    }
}

//! C16 — statement parsing is compositional: context never changes a statement's parse.
//!
//! Metamorphic: membership ("parses without diagnostics on its own") is decided by running the
//! real parser on each statement alone; no model is needed.

use crate::rng::{mix, Rng};
use crate::worker::{guard, Obs, Property, Stream, Tier};
use oq3_syntax::ast::{self, AstNode};
use oq3_syntax::SourceFile;

pub struct C16;

/// (kind label, text).  Statements that do not parse cleanly alone are skipped at run time.
pub const STATEMENTS: &[(&str, &str)] = &[
    ("empty", ";"),
    ("decl-int", "int x;"),
    ("decl-int-init", "int[32] y = 3;"),
    ("decl-const", "const float[64] f = 1.5;"),
    ("decl-bit", "bit[4] b = \"0101\";"),
    ("decl-bool", "bool t = true;"),
    ("decl-complex", "complex[float[64]] z = 2im;"),
    ("decl-duration", "duration d = 10ns;"),
    ("decl-angle", "angle[20] a = pi;"),
    ("decl-cast-init", "uint[8] u = uint[8](x);"),
    ("qubit", "qubit q;"),
    ("qubit-reg", "qubit[2] qq;"),
    ("qreg", "qreg r[3];"),
    ("creg", "creg c[3];"),
    ("io-input", "input int[8] n;"),
    ("io-output", "output bit o;"),
    ("gate-def", "gate g1(theta) a, b { U(theta, 0, 0) a; }"),
    ("gate-def-empty", "gate g2 a { }"),
    ("def", "def f1(int[8] n, qubit q) -> bit { return measure q; }"),
    ("def-void", "def f2() { }"),
    ("gate-call", "h q;"),
    ("gate-call-params", "rx(pi / 2) q;"),
    ("gate-call-2q", "cx q, qq[0];"),
    ("gate-call-hw", "x $0;"),
    ("gate-call-mod", "inv @ pow(2) @ ctrl @ x q, qq[1];"),
    ("gphase", "gphase(pi);"),
    ("measure-stmt", "measure q;"),
    ("measure-assign", "c = measure q;"),
    ("measure-decl", "bit m = measure q;"),
    ("reset", "reset q;"),
    ("barrier", "barrier q, qq;"),
    ("barrier-empty", "barrier;"),
    ("delay", "delay[10ns] q;"),
    ("if-block", "if (x == 1) { x = 2; }"),
    ("if-single", "if (x == 1) x = 2;"),
    ("if-else", "if (t) { h q; } else { x q; }"),
    ("if-else-single", "if (t) h q; else x q;"),
    ("if-else-if", "if (t) { } else if (x != 2) { } else { }"),
    ("while", "while (t) { x = 1; }"),
    ("while-single", "while (t) h q;"),
    ("for-range", "for uint i in [0:2:10] { h q; }"),
    ("for-set", "for int j in {1, 2, 3} x = j;"),
    ("for-ident", "for bit k in b { }"),
    ("switch", "switch (x) { case 1, 2 { h q; } default { } }"),
    ("break", "break;"),
    ("continue", "continue;"),
    ("end", "end;"),
    ("return", "return;"),
    ("return-value", "return x;"),
    ("assign", "x = 3;"),
    ("assign-ident", "x = y;"),
    ("assign-paren", "x = (y + 1);"),
    ("assign-indexed", "b[0] = 1;"),
    ("assign-compound", "x += 2;"),
    ("alias", "let al = qq[0:1];"),
    ("alias-concat", "let al2 = q ++ qq;"),
    ("expr-stmt", "x + 1;"),
    ("neg-expr-stmt", "-y;"),
    ("paren-expr-stmt", "(x + 1);"),
    ("paren-call-stmt", "(f2)();"),
    ("call-stmt", "f2();"),
    ("cast-stmt", "int[8](x);"),
    ("index-stmt", "b[1];"),
    ("pragma", "pragma some words here\n"),
    ("pragma-hash", "#pragma other words\n"),
    ("annotation", "@ann thing 1 2\n"),
    ("not-expr-stmt", "!t;"),
    ("bitnot-expr-stmt", "~x;"),
    ("if-empty-body", "if (t) ;"),
    ("if-else-empty-body", "if (t) x q; else ;"),
    ("while-empty-body", "while (t) ;"),
    ("for-empty-body", "for int j in [0:2] ;"),
    ("pragma-bare", "pragma\n"),
    ("pragma-hash-bare", "#pragma\n"),
    ("annotation-bare", "@ann\n"),
    ("include-std", "include \"stdgates.inc\";"),
    ("include-file", "include \"other.qasm\";"),
    ("version", "OPENQASM 3.0;"),
    ("cal", "cal { whatever 1 2 }"),
    ("defcal", "defcal x $0 { }"),
    ("defcalgrammar", "defcalgrammar \"openpulse\";"),
    ("extern", "extern ef(int[8]) -> bit;"),
    ("box", "box { h q; }"),
    ("array-decl", "array[int[8], 2] arr;"),
    ("block", "{ int w; }"),
    // a line-oriented lexeme as the brace-less body of a control-flow statement
    ("if-annotation-body", "if (t) @note in body\n"),
    ("else-annotation-body", "if (t) x q; else @note in body\n"),
    ("while-annotation-body", "while (t) @note in body\n"),
    ("for-annotation-body", "for int j in [0:1] @note in body\n"),
    ("if-pragma-body", "if (t) pragma in body\n"),
];

const TRIPLE_SUBSET: &[&str] = &["empty", "decl-int", "gate-call", "if-single", "if-else-single", "assign", "alias", "expr-stmt", "pragma", "annotation", "gate-def-empty", "for-set"];

pub const CONTEXTS: &[(&str, &str, &str)] = &[
    ("file", "", ""),
    ("gate-body", "gate gg qa { ", " }"),
    ("def-body", "def ff() { ", " }"),
    ("if-body", "if (c0) { ", " }"),
    ("else-body", "if (c0) { } else { ", " }"),
    ("while-body", "while (c0) { ", " }"),
    ("for-body", "for int i0 in [0:1] { ", " }"),
    ("case-body", "switch (s0) { case 1 { ", " } }"),
    ("default-body", "switch (s0) { default { ", " } }"),
];

fn norm(t: &str) -> String {
    t.split_whitespace().collect::<Vec<_>>().join(" ")
}

/// Parse `src`; return (number of diagnostics, statements as (kind, normalised text)) of the
/// statement list found at file level (`brace` = None) or in the block opening at byte `brace`.
fn parse_list(src: &str, brace: Option<usize>) -> (usize, Option<Vec<(String, String)>>) {
    let p = SourceFile::parse(src);
    let nerr = p.errors().len();
    let root = p.syntax_node();
    let list: Option<Vec<(String, String)>> = match brace {
        None => Some(p.tree().statements().map(|s| (format!("{:?}", s.syntax().kind()), norm(&s.syntax().text().to_string()))).collect()),
        Some(off) => root
            .descendants()
            .filter_map(ast::BlockExpr::cast)
            .find(|b| {
                let tok = b.syntax().first_token();
                let st: usize = tok.map(|t| t.text_range().start().into()).unwrap_or(usize::MAX);
                st == off
            })
            .map(|b| b.statements().map(|s| (format!("{:?}", s.syntax().kind()), norm(&s.syntax().text().to_string()))).collect()),
    };
    (nerr, list)
}

/// Recorded extent of the known finding "the kind of `let` depends on the parsing routine": at file
/// level the unchanged tree hands the rest of the file to the statement routine after the first of
/// these statements (observed on the pairs `<a> let x = q;`, see DESIGN.md §13); the cell of a `let`
/// whose kind differs says whether one of them precedes it, so that any *other* statement that
/// starts to switch the routine is a different cell and is reported.
const ROUTINE_SWITCHING: &[&str] = &[
    "empty", "qreg", "creg", "gate-call", "gate-call-params", "gate-call-2q", "gate-call-hw", "gate-call-mod", "gphase", "measure-stmt",
    "measure-assign", "return", "return-value", "assign", "assign-ident", "assign-paren", "assign-indexed", "assign-compound", "expr-stmt",
    "neg-expr-stmt", "paren-expr-stmt", "paren-call-stmt", "call-stmt", "index-stmt", "pragma", "pragma-hash", "annotation", "version", "block",
    // (other spellings of the same statement kinds)
    "pragma-bare", "pragma-hash-bare", "annotation-bare", "not-expr-stmt", "bitnot-expr-stmt",
];

fn check_sequence(idxs: &[usize], ctx: usize, sep: &str, obs: &mut Obs) {
    let (cname, pre, post) = CONTEXTS[ctx];
    // individually parsed statements
    let mut expected: Vec<(String, String)> = Vec::new();
    let mut owner: Vec<usize> = Vec::new(); // which input statement each expected entry came from
    let mut alone: std::collections::HashMap<usize, Vec<(String, String)>> = std::collections::HashMap::new();
    for (k, &i) in idxs.iter().enumerate() {
        let (_, text) = STATEMENTS[i];
        if let Some(list) = alone.get(&i) {
            for e in list {
                expected.push(e.clone());
                owner.push(k);
            }
            continue;
        }
        let r = guard(|| parse_list(text, None));
        match r {
            Ok((0, Some(list))) => {
                alone.insert(i, list.clone());
                for e in list {
                    expected.push(e);
                    owner.push(k);
                }
            }
            Ok(_) => {
                obs.inconclusive(format!("precondition: statement `{}` does not parse cleanly on its own", STATEMENTS[i].0));
                obs.count(&format!("not-clean-alone:{}", STATEMENTS[i].0));
                return;
            }
            Err(p) => {
                obs.inconclusive(format!("parse panicked: {}", p.site()));
                return;
            }
        }
    }
    let body: String = idxs.iter().map(|&i| STATEMENTS[i].1).collect::<Vec<_>>().join(sep);
    let src = format!("{pre}{body}{post}");
    obs.fp.str(&src);
    let brace = if pre.is_empty() { None } else { Some(pre.trim_end().len() - 1) };
    let r = guard(|| parse_list(&src, brace));
    let kind_of = |k: usize| STATEMENTS[idxs[k]].0;
    let pred_of = |k: usize| if k == 0 { "start" } else { STATEMENTS[idxs[k - 1]].0 };
    let next_of = |k: usize| if k + 1 >= idxs.len() { "end" } else { STATEMENTS[idxs[k + 1]].0 };
    match r {
        Err(p) => {
            // every statement parsed cleanly on its own: the concatenation must parse, not panic
            let last = idxs.len() - 1;
            obs.violate(
                format!("{}/{}/{cname}/panic/{}", kind_of(last), pred_of(last), p.site()),
                format!("{src:?}: the parser panicked ({}:{} {}) although every statement parses cleanly alone", p.file, p.line, p.msg),
            );
            obs.done(true);
        }
        Ok((nerr, list)) => {
            let Some(list) = list else {
                obs.violate(format!("?/start/{cname}/block-not-found"), format!("{src:?}"));
                obs.done(true);
                return;
            };
            // first difference
            let mut diff: Option<usize> = None;
            for i in 0..list.len().max(expected.len()) {
                if list.get(i) != expected.get(i) {
                    diff = Some(i);
                    break;
                }
            }
            if let Some(i) = diff {
                let k = owner.get(i).copied().unwrap_or(idxs.len() - 1);
                let what = match (list.get(i), expected.get(i)) {
                    (Some(a), Some(b)) if a.0 != b.0 => "kind",
                    (Some(_), Some(_)) => "text",
                    _ => "count",
                };
                let mut cell = format!("{}/{}/{cname}/{what}/next:{}", kind_of(k), pred_of(k), next_of(k));
                if cname == "file" && what == "kind" && kind_of(k).starts_with("alias") {
                    let after = (0..k).any(|j| ROUTINE_SWITCHING.contains(&kind_of(j)));
                    cell.push_str(if after { "/after-routine-switch" } else { "/items-only-before" });
                }
                obs.violate(cell, format!("{src:?}: statement {i}: in context {:?}, alone {:?}", list.get(i), expected.get(i)));
            } else if nerr > 0 {
                // which statement? re-parse growing prefixes
                let mut culprit = idxs.len() - 1;
                for k in 0..idxs.len() {
                    let b: String = idxs[..=k].iter().map(|&i| STATEMENTS[i].1).collect::<Vec<_>>().join(sep);
                    let s2 = format!("{pre}{b}{post}");
                    if let Ok((n, _)) = guard(|| parse_list(&s2, brace)) {
                        if n > 0 {
                            culprit = k;
                            break;
                        }
                    }
                }
                let mut cell = format!("{}/{}/{cname}/diagnostic/next:{}", kind_of(culprit), pred_of(culprit), next_of(culprit));
                if cname == "file" && kind_of(culprit) == "empty" {
                    // the empty statement is only rejected while the item routine is still active
                    let after = (0..culprit).any(|j| ROUTINE_SWITCHING.contains(&kind_of(j)));
                    cell.push_str(if after { "/after-routine-switch" } else { "/items-only-before" });
                }
                obs.violate(cell, format!("{src:?}: {nerr} diagnostics although every statement parses cleanly alone"));
            }
            obs.class(&format!("context:{cname}"));
            obs.done(expected.len() >= 2);
        }
    }
}

/// Heads whose body is exactly one statement without braces.
const SINGLE_BODY_HEADS: &[(&str, &str)] = &[("if-single-body", "if (c0) "), ("else-single-body", "if (c0) { } else "), ("while-single-body", "while (c0) "), ("for-single-body", "for int i0 in [0:1] ")];
/// Statement kinds that the grammar allows as such a body without any doubt.
const SINGLE_BODY_KINDS: &[&str] = &["gate-call", "gphase", "measure-", "reset", "barrier", "delay", "if-", "while", "for-", "switch", "break", "continue", "assign", "call-stmt", "end"];

/// One statement as the brace-less body of an if / else / while / for: no diagnostics, and the body is
/// the statement parsed alone (same kind, same text).
fn check_single_body(i: usize, h: usize, obs: &mut Obs) {
    let (kind, text) = STATEMENTS[i];
    let (hname, head) = SINGLE_BODY_HEADS[h % SINGLE_BODY_HEADS.len()];
    if !SINGLE_BODY_KINDS.iter().any(|k| kind.starts_with(k)) {
        obs.done(false);
        return;
    }
    let alone = match guard(|| parse_list(text, None)) {
        Ok((0, Some(l))) if l.len() == 1 => l[0].clone(),
        _ => {
            obs.inconclusive(format!("precondition: statement `{kind}` does not parse cleanly on its own"));
            return;
        }
    };
    let src = format!("{head}{text}");
    obs.fp.str(&src);
    let r = guard(|| {
        let p = SourceFile::parse(&src);
        let nerr = p.errors().len();
        let msgs: Vec<String> = p.errors().iter().map(|e| e.to_string()).collect();
        let top: Vec<(String, String)> = p.tree().statements().map(|s| (format!("{:?}", s.syntax().kind()), norm(&s.syntax().text().to_string()))).collect();
        // the body: a statement node below the outer statement with the kind and text of the statement alone
        let found = p.syntax_node().descendants().skip(1).any(|n| format!("{:?}", n.kind()) == alone.0 && norm(&n.text().to_string()) == alone.1);
        (nerr, msgs, top, found)
    });
    match r {
        Err(p) => obs.violate(format!("{kind}/start/{hname}/panic/{}", p.site()), format!("{src:?}: {}:{} {}", p.file, p.line, p.msg)),
        Ok((nerr, msgs, top, found)) => {
            if nerr > 0 {
                obs.violate(format!("{kind}/start/{hname}/diagnostic/next:end"), format!("{src:?}: {msgs:?} although the statement parses cleanly alone"));
            } else if top.len() != 1 || top[0].1 != norm(&src) {
                obs.violate(format!("{kind}/start/{hname}/count/next:end"), format!("{src:?}: top-level statements {top:?}"));
            } else if !found {
                obs.violate(format!("{kind}/start/{hname}/text/next:end"), format!("{src:?}: no body node {alone:?}"));
            }
        }
    }
    obs.class("single-statement-body");
    obs.done(true);
}

fn clean_context(ctx: usize) -> bool {
    let (_, pre, post) = CONTEXTS[ctx];
    let src = format!("{pre}{post}");
    matches!(guard(|| parse_list(&src, None)), Ok((0, _)))
}

impl Property for C16 {
    fn id(&self) -> &'static str {
        "C16"
    }
    fn rule(&self) -> &'static str {
        "Metamorphic over the real parser: 76 statement texts covering every statement kind (incl. the empty statement, pragma, annotation, version header, calibration and array forms). A statement belongs to the workload iff it parses with zero diagnostics alone (decided at run time). All ordered pairs (quick and thorough), all triples over a 12-kind subset and random sequences up to length 12, each at file level and inside gate/def/if/else/while/for/case/default block bodies, with five separators (blank, line break, trailing line comment, comment line directly above the next statement, block comment): the concatenation must parse with zero diagnostics and its statement list (kind, whitespace-normalised text) must equal the concatenation of the individually parsed lists. One evaluation = one (sequence, context, separator). Non-trivial: >= 2 statements expected. Distinct: hash of the source."
    }
    fn streams(&self, tier: Tier, seed: u64) -> Vec<Stream> {
        let n = STATEMENTS.len() as u64;
        let nc = CONTEXTS.len() as u64;
        let t = TRIPLE_SUBSET.len() as u64;
        let mut v = vec![
            Stream::new("singles-in-every-context", n * nc, true, move |i| format!("seq:{}:{}:0", i % n, i / n)),
            Stream::new("all-ordered-pairs-in-every-context", n * n * nc * 5, true, move |i| {
                let sep = i % 5;
                let j = i / 5;
                format!("seq:{},{}:{}:{sep}", j % n, (j / n) % n, j / n / n)
            }),
            Stream::new("all-triples-over-12-kinds-in-every-context", t * t * t * nc, true, move |i| {
                let idx = |name: &str| STATEMENTS.iter().position(|s| s.0 == name).unwrap();
                let a = idx(TRIPLE_SUBSET[(i % t) as usize]);
                let b = idx(TRIPLE_SUBSET[((i / t) % t) as usize]);
                let c = idx(TRIPLE_SUBSET[((i / t / t) % t) as usize]);
                format!("seq:{a},{b},{c}:{}:{}", i / t / t / t, i % 2)
            }),
        ];
        // long runs of one statement kind followed by one statement of another kind: the length of a
        // sequence is a dimension of "every sequence" too (counts around 256 and beyond)
        {
            let counts: &'static [u64] = if tier == Tier::Thorough { &[64, 255, 256, 257, 300, 1000, 4096] } else { &[255, 256, 257, 300, 1000] };
            let tails = ["decl-bool", "gate-call", "if-single"];
            let ctxs = [0u64, 3, 2];
            let nk = counts.len() as u64;
            v.push(Stream::new("long-runs-of-one-statement-kind", n * nk * 3 * 3, true, move |i| {
                let k = i % n;
                let c = counts[((i / n) % nk) as usize];
                let t = tails[((i / n / nk) % 3) as usize];
                let ctx = ctxs[((i / n / nk / 3) % 3) as usize];
                format!("run:{k}:{c}:{t}:{ctx}:{}", i % 5)
            }));
        }
        v.push(Stream::new("single-statement-bodies", n * SINGLE_BODY_HEADS.len() as u64, true, move |i| format!("single:{}:{}", i % n, i / n)));
        v.push(Stream::new("random-sequences", tier.pick(20_000, 1_000_000), false, move |i| {
            let mut r = Rng::new(mix(&[seed, 0xC16, i]));
            let len = r.range(2, 12);
            let seq: Vec<String> = (0..len).map(|_| r.below(n).to_string()).collect();
            format!("seq:{}:{}:{}", seq.join(","), r.below(nc), r.below(5))
        }));
        v
    }
    fn check(&self, input: &str, obs: &mut Obs) {
        if let Some(rest) = input.strip_prefix("single:") {
            let parts: Vec<&str> = rest.split(':').collect();
            check_single_body(parts[0].parse().unwrap_or(0) % STATEMENTS.len(), parts[1].parse().unwrap_or(0), obs);
            return;
        }
        if let Some(rest) = input.strip_prefix("run:") {
            let parts: Vec<&str> = rest.split(':').collect();
            let k: usize = parts[0].parse().unwrap_or(0) % STATEMENTS.len();
            let count: usize = parts[1].parse().unwrap_or(2);
            let tail = STATEMENTS.iter().position(|s| s.0 == parts[2]).unwrap_or(0);
            let ctx: usize = parts[3].parse().unwrap_or(0) % CONTEXTS.len();
            let sep = ["\n", " ", " // remark on the statement before\n", "\n// comment line directly above\n", " /* between */ "][parts[4].parse::<usize>().unwrap_or(0) % 5];
            if !clean_context(ctx) {
                obs.inconclusive("context does not parse cleanly when empty");
                return;
            }
            let mut idxs = vec![k; count];
            idxs.push(tail);
            check_sequence(&idxs, ctx, sep, obs);
            obs.class("long-run");
            return;
        }
        if let Some(rest) = input.strip_prefix("seq:") {
            let parts: Vec<&str> = rest.split(':').collect();
            // statements may be given by index or by kind label
            let mut idxs = Vec::new();
            for t in parts[0].split(',') {
                match t.parse::<usize>() {
                    Ok(i) if i < STATEMENTS.len() => idxs.push(i),
                    _ => match STATEMENTS.iter().position(|s| s.0 == t) {
                        Some(i) => idxs.push(i),
                        None => {
                            obs.inconclusive(format!("unknown statement {t}"));
                            return;
                        }
                    },
                }
            }
            let ctx = parts
                .get(1)
                .and_then(|c| c.parse::<usize>().ok().or_else(|| CONTEXTS.iter().position(|x| x.0 == *c)))
                .unwrap_or(0)
                .min(CONTEXTS.len() - 1);
            // separators: blank, line break, trailing remark, comment line directly above the next
            // statement, block comment
            let sep = match parts.get(2).copied().unwrap_or("0") {
                "1" => "\n",
                "2" => " // remark on the statement before\n",
                "3" => "\n// comment line directly above\n",
                "4" => " /* between */ ",
                _ => " ",
            };
            if !clean_context(ctx) {
                obs.inconclusive("context wrapper does not parse cleanly");
                return;
            }
            check_sequence(&idxs, ctx, sep, obs);
            if obs.note.is_empty() {
                obs.note = format!("{} statements in context {}: same statement list as when parsed alone", idxs.len(), CONTEXTS[ctx].0);
            }
            return;
        }
        obs.inconclusive("unrecognised input spec");
    }
    fn mandatory_classes(&self, _tier: Tier) -> Vec<&'static str> {
        vec!["context:file", "context:gate-body", "context:case-body", "context:else-body"]
    }
}

#![allow(dead_code)]
//! oq3mon — runtime monitors for Qiskit/openqasm3_parser (see /verif/DESIGN.md).
//!
//!   oq3mon run <PROP> --tier quick|thorough --seed N --shard i --nshards n --out DIR [--start G] [--careful] [--limit K]
//!   oq3mon replay <PROP> --input-file F
//!   oq3mon fpmerge DIR
//!   oq3mon list

mod alloc;
mod gen;
mod model;
mod model_resolve;
mod model_shrink;
mod mon;
mod rng;
mod worker;

use worker::{Property, RunArgs, Tier};

#[cfg(not(miri))]
#[global_allocator]
static GLOBAL: alloc::Counting = alloc::Counting;

fn registry() -> Vec<Box<dyn Property>> {
    mon::all()
}

fn main() {
    let args: Vec<String> = std::env::args().collect();
    if args.len() < 2 {
        eprintln!("usage: oq3mon run|replay|fpmerge|list ...");
        std::process::exit(2);
    }
    worker::install_panic_hook();
    let code = match args[1].as_str() {
        "list" => {
            for p in registry() {
                println!("{}", p.id());
            }
            0
        }
        "fpmerge" => {
            worker::fpmerge(&args[2]).expect("fpmerge");
            0
        }
        "info" | "gen" => {
            let prop_id = args.get(2).cloned().unwrap_or_default();
            let reg = registry();
            let Some(prop) = reg.iter().find(|p| p.id() == prop_id) else {
                eprintln!("unknown property {prop_id}");
                std::process::exit(2);
            };
            let mut tier = Tier::Quick;
            let mut seed = 0u64;
            let mut g = 0u64;
            let mut i = 3;
            while i + 1 < args.len() {
                match args[i].as_str() {
                    "--tier" => tier = if args[i + 1] == "thorough" { Tier::Thorough } else { Tier::Quick },
                    "--seed" => seed = args[i + 1].parse().unwrap_or(0),
                    "--g" => g = args[i + 1].parse().unwrap_or(0),
                    _ => {}
                }
                i += 2;
            }
            if args[1] == "info" {
                let classes: Vec<String> = prop.mandatory_classes(tier).iter().map(|c| worker::jstr(c)).collect();
                let streams: Vec<String> = prop
                    .streams(tier, seed)
                    .iter()
                    .map(|s| format!("{{\"name\":{},\"count\":{},\"exhaustive\":{}}}", worker::jstr(&s.name), s.count, s.exhaustive))
                    .collect();
                println!(
                    "{{\"id\":{},\"rule\":{},\"mandatory_classes\":[{}],\"streams\":[{}]}}",
                    worker::jstr(prop.id()),
                    worker::jstr(prop.rule()),
                    classes.join(","),
                    streams.join(",")
                );
            } else {
                let mut base = 0u64;
                for st in prop.streams(tier, seed) {
                    if g < base + st.count {
                        print!("{}", (st.gen)(g - base));
                        break;
                    }
                    base += st.count;
                }
            }
            0
        }
        "run" | "replay" => {
            let prop_id = args.get(2).cloned().unwrap_or_default();
            let reg = registry();
            let prop = match reg.iter().find(|p| p.id() == prop_id) {
                Some(p) => p,
                None => {
                    eprintln!("unknown property {prop_id}");
                    std::process::exit(2);
                }
            };
            let mut tier = Tier::Quick;
            let mut seed = 0u64;
            let mut shard = 0u64;
            let mut nshards = 1u64;
            let mut out = String::from(".");
            let mut start = 0u64;
            let mut careful = false;
            let mut limit = None;
            let mut per_stream = None;
            let mut skip_streams: Vec<String> = Vec::new();
            let mut input_file = None;
            let mut i = 3;
            while i < args.len() {
                let a = args[i].as_str();
                let mut val = || {
                    i += 1;
                    args.get(i).cloned().unwrap_or_default()
                };
                match a {
                    "--tier" => {
                        tier = if val() == "thorough" { Tier::Thorough } else { Tier::Quick }
                    }
                    "--seed" => seed = val().parse().unwrap_or(0),
                    "--shard" => shard = val().parse().unwrap_or(0),
                    "--nshards" => nshards = val().parse().unwrap_or(1),
                    "--out" => out = val(),
                    "--start" => start = val().parse().unwrap_or(0),
                    "--limit" => limit = val().parse().ok(),
                    "--per-stream" => per_stream = val().parse().ok(),
                    "--skip-streams" => skip_streams = val().split(',').filter(|x| !x.is_empty()).map(|x| x.to_string()).collect(),
                    "--careful" => careful = true,
                    "--input-file" => input_file = Some(val()),
                    _ => {
                        eprintln!("unknown argument {a}");
                        std::process::exit(2);
                    }
                }
                i += 1;
            }
            // Monitors run on a thread with a large stack so that the nesting bound of
            // DESIGN.md (256) is far from the stack limit.
            let is_run = args[1] == "run";
            let handle = std::thread::Builder::new()
                .stack_size(64 << 20)
                .spawn(move || {
                    let reg = registry();
                    let prop = reg.iter().find(|p| p.id() == prop_id).unwrap();
                    if is_run {
                        let ra = RunArgs {
                            tier,
                            seed,
                            shard,
                            nshards,
                            out_dir: out,
                            start,
                            careful,
                            limit,
                            per_stream,
                            skip_streams,
                        };
                        match worker::run_property(prop.as_ref(), &ra) {
                            Ok(()) => 0,
                            Err(e) => {
                                eprintln!("io error: {e}");
                                3
                            }
                        }
                    } else {
                        let f = input_file.expect("--input-file required");
                        let input = std::fs::read_to_string(&f).expect("read input file");
                        worker::replay(prop.as_ref(), &input);
                        0
                    }
                })
                .expect("spawn");
            let _ = prop;
            handle.join().unwrap_or(4)
        }
        _ => {
            eprintln!("unknown command");
            2
        }
    };
    std::process::exit(code);
}

//! Reference resolver: lexical scoping exactly as the property (C07) states it.
//!
//! A declaration is visible from the end of its own statement to the end of its scope.  Scopes:
//! the global scope; one scope per gate/def covering parameters and body; one per if-body,
//! else-body, while-body, for (loop variable + body), case body, default body.  The initialiser
//! and the for-iterable are resolved before the new name is bound.

use crate::model::*;
use std::collections::HashMap;

/// (statement id, slot): slot 0 is the declared name of the statement; gate/def parameters are
/// slots 1.. in source order (angle parameters first, then qubits).
#[derive(Clone, Copy, Debug, PartialEq, Eq, Hash, PartialOrd, Ord)]
pub struct DeclKey(pub Id, pub u32);

#[derive(Clone, Debug, PartialEq, Eq, Hash)]
pub enum Target {
    Decl(DeclKey),
    /// built-in constant, `U`, or a standard-library gate
    Builtin(String),
}

#[derive(Clone, Debug)]
pub struct DeclInfo {
    pub key: DeclKey,
    pub name: String,
    /// a second declaration of the name in the same scope
    pub duplicate: bool,
    pub kind: &'static str,
    pub scope_depth: usize,
}

#[derive(Clone, Debug)]
pub struct UseInfo {
    /// expression id of the identifier (or call) node; for gate-call names the statement id
    pub id: Id,
    pub name: String,
    pub target: Option<Target>,
    pub position: &'static str,
    /// relation of the use to the declaration that the name resolves to
    pub relation: &'static str,
}

pub const BUILTIN_CONSTS: &[&str] = &["pi", "π", "tau", "τ", "euler", "ℇ"];

/// name, number of angle parameters, number of qubits
pub const STDGATES: &[(&str, usize, usize)] = &[
    ("x", 0, 1),
    ("y", 0, 1),
    ("z", 0, 1),
    ("h", 0, 1),
    ("s", 0, 1),
    ("sdg", 0, 1),
    ("t", 0, 1),
    ("tdg", 0, 1),
    ("sx", 0, 1),
    ("id", 0, 1),
    ("p", 1, 1),
    ("rx", 1, 1),
    ("ry", 1, 1),
    ("rz", 1, 1),
    ("phase", 1, 1),
    ("u1", 1, 1),
    ("u2", 2, 1),
    ("u3", 3, 1),
    ("cx", 0, 2),
    ("cy", 0, 2),
    ("cz", 0, 2),
    ("ch", 0, 2),
    ("swap", 0, 2),
    ("CX", 0, 2),
    ("cp", 1, 2),
    ("crx", 1, 2),
    ("cry", 1, 2),
    ("crz", 1, 2),
    ("cphase", 1, 2),
    ("cu", 4, 2),
    ("ccx", 0, 3),
    ("cswap", 0, 3),
];

pub struct Resolver {
    scopes: Vec<HashMap<String, Target>>,
    /// names that were visible in a scope that has been closed (for the `after-exit` relation)
    closed: Vec<String>,
    pub decls: Vec<DeclInfo>,
    pub uses: Vec<UseInfo>,
    /// standard-library names that collided with an existing global binding at the include
    pub stdlib_collisions: Vec<(Id, String)>,
}

impl Resolver {
    pub fn new() -> Resolver {
        let mut g = HashMap::new();
        for c in BUILTIN_CONSTS {
            g.insert(c.to_string(), Target::Builtin(c.to_string()));
        }
        g.insert("U".to_string(), Target::Builtin("U".to_string()));
        Resolver {
            scopes: vec![g],
            closed: Vec::new(),
            decls: Vec::new(),
            uses: Vec::new(),
            stdlib_collisions: Vec::new(),
        }
    }

    fn lookup(&self, name: &str) -> Option<(Target, usize)> {
        for (d, sc) in self.scopes.iter().enumerate().rev() {
            if let Some(t) = sc.get(name) {
                return Some((t.clone(), d));
            }
        }
        None
    }

    fn bind(&mut self, key: DeclKey, name: &str, kind: &'static str) {
        let dup = self.scopes.last().unwrap().contains_key(name);
        if !dup {
            self.scopes.last_mut().unwrap().insert(name.to_string(), Target::Decl(key));
        }
        self.decls.push(DeclInfo {
            key,
            name: name.to_string(),
            duplicate: dup,
            kind,
            scope_depth: self.scopes.len(),
        });
    }

    fn use_name(&mut self, id: Id, name: &str, position: &'static str) {
        let found = self.lookup(name);
        let relation = match &found {
            None => {
                if self.closed.iter().any(|n| n == name) {
                    "after-exit"
                } else {
                    "undeclared"
                }
            }
            Some((Target::Builtin(_), _)) => "builtin",
            Some((_, d)) => {
                let shadows = self.scopes[..*d].iter().any(|s| s.contains_key(name));
                if shadows {
                    "shadowed"
                } else if d + 1 == self.scopes.len() {
                    "same-scope"
                } else {
                    "outer"
                }
            }
        };
        self.uses.push(UseInfo {
            id,
            name: name.to_string(),
            target: found.map(|f| f.0),
            position,
            relation,
        });
    }

    fn enter(&mut self) {
        self.scopes.push(HashMap::new());
    }

    fn exit(&mut self) {
        if let Some(s) = self.scopes.pop() {
            self.closed.extend(s.into_keys());
        }
    }

    pub fn expr(&mut self, e: &E, position: &'static str) {
        match &e.k {
            EK::Ident(n) => self.use_name(e.id, n, position),
            EK::Unary(_, a) | EK::Cast(_, a) => self.expr(a, position),
            EK::Binary(_, l, r) => {
                self.expr(l, position);
                self.expr(r, position);
            }
            EK::Call(n, args) => {
                // arguments are translated before the callee is looked up
                for a in args {
                    self.expr(a, "call-argument");
                }
                self.use_name(e.id, n, "callee");
            }
            EK::Index(b, ixs) => {
                match &b.k {
                    // the indexed name is looked up before its index expressions
                    EK::Ident(n) => self.use_name(b.id, n, if position == "operand" { "indexed-operand" } else { "indexed" }),
                    _ => self.expr(b, position),
                }
                for ix in ixs {
                    match ix {
                        MIndex::List(es) | MIndex::Set(es) => {
                            for x in es {
                                self.expr(x, "index");
                            }
                        }
                    }
                }
            }
            EK::Measure(q) => self.expr(q, "measure-operand"),
            EK::Range(a, s, b) => {
                // analysed in the order start, stop, step
                self.expr(a, "range");
                self.expr(b, "range");
                if let Some(s) = s {
                    self.expr(s, "range");
                }
            }
            _ => {}
        }
    }

    fn body(&mut self, b: &Body) {
        self.enter();
        for s in b.stmts() {
            self.stmt(s);
        }
        self.exit();
    }

    fn block(&mut self, v: &[S]) {
        for s in v {
            self.stmt(s);
        }
    }

    pub fn stmt(&mut self, s: &S) {
        match &s.k {
            SK::Decl(_, _, n, init) => {
                if let Some(e) = init {
                    self.expr(e, "initializer");
                }
                self.bind(DeclKey(s.id, 0), n, "classical");
            }
            SK::Qubit(n, _) => self.bind(DeclKey(s.id, 0), n, "qubit"),
            SK::OldReg(..) => {}
            SK::Io(_, _, n) => self.bind(DeclKey(s.id, 0), n, "io"),
            SK::Gate(n, ps, qs, body) => {
                self.enter();
                let mut slot = 1;
                if let Some(ps) = ps {
                    for p in ps {
                        self.bind(DeclKey(s.id, slot), p, "gate-param");
                        slot += 1;
                    }
                }
                for q in qs {
                    self.bind(DeclKey(s.id, slot), q, "gate-qubit");
                    slot += 1;
                }
                self.block(body);
                self.exit();
                self.bind(DeclKey(s.id, 0), n, "gate");
            }
            SK::Def(n, ps, _, body) => {
                self.enter();
                for (i, (_, p)) in ps.iter().enumerate() {
                    self.bind(DeclKey(s.id, 1 + i as u32), p, "def-param");
                }
                self.block(body);
                self.exit();
                self.bind(DeclKey(s.id, 0), n, "def");
            }
            SK::GateCall(mods, n, args, ops) => {
                for m in mods {
                    match m {
                        Modifier::Pow(e) => self.expr(e, "modifier"),
                        Modifier::Ctrl(Some(e)) | Modifier::NegCtrl(Some(e)) => self.expr(e, "modifier"),
                        _ => {}
                    }
                }
                for o in ops {
                    self.expr(o, "operand");
                }
                if let Some(a) = args {
                    for x in a {
                        self.expr(x, "gate-argument");
                    }
                }
                self.use_name(s.id, n, "gate-name");
            }
            SK::GPhase(mods, a) => {
                for m in mods {
                    match m {
                        Modifier::Pow(e) => self.expr(e, "modifier"),
                        Modifier::Ctrl(Some(e)) | Modifier::NegCtrl(Some(e)) => self.expr(e, "modifier"),
                        _ => {}
                    }
                }
                self.expr(a, "gate-argument");
            }
            SK::MeasureStmt(q) => self.expr(q, "measure-operand"),
            SK::MeasureArrow(q, c) => {
                self.expr(q, "measure-operand");
                self.expr(c, "assign-target");
            }
            SK::Reset(q) => self.expr(q, "reset-operand"),
            SK::Barrier(ops) => {
                for o in ops {
                    self.expr(o, "operand");
                }
            }
            SK::Delay(d, ops) => {
                for o in ops {
                    self.expr(o, "operand");
                }
                self.expr(d, "designator");
            }
            SK::If(c, t, e) => {
                self.expr(c, "condition");
                self.body(t);
                if let Some(e) = e {
                    self.body(e);
                }
            }
            SK::While(c, b) => {
                self.expr(c, "condition");
                self.body(b);
            }
            SK::For(_, v, it, b) => {
                match it {
                    Iterable::Range(r) => self.expr(r, "iterable"),
                    Iterable::Set(es) => {
                        for x in es {
                            self.expr(x, "iterable");
                        }
                    }
                    Iterable::Expr(e) => self.expr(e, "iterable"),
                }
                self.enter();
                self.bind(DeclKey(s.id, 0), v, "loop-variable");
                for st in b.stmts() {
                    self.stmt(st);
                }
                self.exit();
            }
            SK::Switch(c, cases, def) => {
                self.expr(c, "condition");
                for (vals, body) in cases {
                    for v in vals {
                        self.expr(v, "case-value");
                    }
                    self.enter();
                    self.block(body);
                    self.exit();
                }
                if let Some(d) = def {
                    self.enter();
                    self.block(d);
                    self.exit();
                }
            }
            SK::Return(Some(e)) => self.expr(e, "return-value"),
            SK::Assign(t, _, rhs) => {
                // the right-hand side is translated before the target is looked up (identifier
                // targets); indexed targets are looked up first
                match &t.k {
                    EK::Ident(n) => {
                        self.expr(rhs, "assign-rhs");
                        self.use_name(t.id, n, "assign-target");
                    }
                    _ => {
                        self.expr(t, "assign-target");
                        self.expr(rhs, "assign-rhs");
                    }
                }
            }
            SK::Alias(n, e) => {
                self.expr(e, "alias-value");
                self.bind(DeclKey(s.id, 0), n, "alias");
            }
            SK::ExprStmt(e) => self.expr(e, "expression"),
            SK::Include(p) if p == "stdgates.inc" => {
                if self.scopes.len() == 1 {
                    for (g, _, _) in STDGATES {
                        if self.scopes[0].contains_key(*g) {
                            self.stdlib_collisions.push((s.id, g.to_string()));
                        } else {
                            self.scopes[0].insert(g.to_string(), Target::Builtin(g.to_string()));
                        }
                    }
                }
            }
            _ => {}
        }
    }

    pub fn program(prog: &[S]) -> Resolver {
        let mut r = Resolver::new();
        for s in prog {
            r.stmt(s);
        }
        r
    }

    pub fn depth(&self) -> usize {
        self.scopes.len()
    }
}

//! String-level generators for the "every UTF-8 string" properties: hostile random strings,
//! seed programs, mutators, nesting bombs, token soups.

use super::lexemes::*;
use crate::rng::Rng;
use std::sync::OnceLock;

pub const HOSTILE: &[&str] = &[
    "0", "1", "7", "9", "b", "o", "x", "e", "E", ".", "_", "\"", "'", "/", "*", "#", "$", "@", "p", "O", "µ", "\0",
    "\n", "\r", "\u{2028}", "\u{200d}", "😀", "𝔘", "é", " ", "\t", ";", "(", ")", "[", "]", "{", "}", "=", "-", "+",
    "<", ">", "&", "|", "!", "~", ":", ",", "s", "d", "t", "i", "m", "n", "a", "q", "\\", "§", "P", "r", "g",
    // boundaries of the UTF-8 encoding lengths, blanks outside the lexer's whitespace set, the byte order mark
    "\u{7f}", "\u{80}", "\u{7ff}", "\u{800}", "\u{ffff}", "\u{10000}", "\u{10ffff}", "\u{a0}", "\u{3000}", "\u{feff}", "\u{85}",
    // invisible format characters, a combining mark, Latin-1 symbols with the Emoji property
    "\u{200b}", "\u{2060}", "\u{ad}", "\u{301}", "©", "®",
];

pub fn hostile_string(r: &mut Rng, maxlen: usize) -> String {
    let n = r.range(0, maxlen as u64) as usize;
    let mut s = String::new();
    for _ in 0..n {
        s.push_str(*r.pick(HOSTILE));
    }
    s
}

/// Hand-written seed programs covering the constructs of the front end.
pub const BUILTIN_SEEDS: &[&str] = &[
    "OPENQASM 3.0;\ninclude \"stdgates.inc\";\nqubit[2] q;\nbit[2] c;\nh q[0];\ncx q[0], q[1];\nc = measure q;\n",
    "int[32] x = 3;\nconst float[64] f = 1.5e-3;\nuint[8] u = 0xFF;\nbool b = true;\nangle[20] a = pi / 2;\ncomplex[float[64]] z = 1.0 + 2.0im;\nduration d = 10ns;\nstretch s;\nbit[4] bs = \"0101\";\n",
    "gate mygate(theta, phi) a, b { U(theta, phi, 0) a; ctrl @ x a, b; inv @ pow(2) @ h b; gphase(theta); }\n",
    "def f(int[8] n, qubit q, bit[2] c) -> bit { h q; return measure q; }\n",
    "if (x == 3) { x = x + 1; } else if (x != 4) y = 2; else { z = 3; }\n",
    "while (i < 10) { i += 1; if (i == 5) break; else continue; }\n",
    "for uint i in [0:2:10] { a[i] = i * 2; }\nfor int j in {1, 2, 3} x += j;\nfor bit b in bs { }\n",
    "switch (i) { case 1, 2 { x = 1; } case 3 { } default { end; } }\n",
    "let al = q[0:1] ++ q[3];\nreset q;\nbarrier q[0], $1;\ndelay[10ns] q[0];\nmeasure $0;\nc[0] = measure q[0];\n",
    "input int[8] n;\noutput bit[2] r;\npragma foo bar\n#pragma baz\n@annot thing 1 2\nint w;\n",
    "x = a ** b * c / d % e + f - g << h >> i < j <= k > l >= m == n != o & p ^ q | r && s || t;\n",
    "y = -x + ~z - !w;\nq2 = float[32](n) + int(3.5) - bit[4](bs)[0];\nw = f(1, 2)(3)[4][5:6];\n",
    "defcalgrammar \"openpulse\";\ncal { whatever 1 2 3 }\ndefcal x $0 { play(drive($0), g); }\nextern fn(int[8], float) -> bit;\n",
    "array[int[8], 2, 3] arr = {{1,2,3},{4,5,6}};\ndef g(readonly array[float[32], #dim = 2] m, mutable array[int, 3] v) { }\nbox [10ns] { x q; }\nbox { }\n",
    "qreg qq[3];\ncreg cc[3];\nCX qq[0], qq[1];\nmeasure qq -> cc;\nU(0, 0, pi) qq[2];\nnegctrl(2) @ ctrl @ x a, b, c, d;\n",
    "/* block /* nested */ comment */ int x; // line comment\nfloat y = 1_0.2_5e+1_0; const int n = 0b1010_1010; uint m = 0o17; int h = 0XdeadBEEF;\n",
    "duration t = 1.5µs + 2 us - 3ms * 4s / 5dt; complex c = 3im; float g = 2.5 im;\n",
    "return;\nreturn x + 1;\nend;\nbreak;\ncontinue;\n;\n{ int a; }\n",
    "include \"other.qasm\";\ninclude 'single.inc';\nOPENQASM 3;\n",
    "θ = 变量 + Δx * π;\nint ñ = 1;\n",
];

fn load_dir(dir: &str, out: &mut Vec<String>) {
    let rd = match std::fs::read_dir(dir) {
        Ok(r) => r,
        Err(_) => return,
    };
    let mut entries: Vec<_> = rd.filter_map(|e| e.ok()).collect();
    entries.sort_by_key(|e| e.file_name());
    for e in entries {
        let p = e.path();
        if p.is_dir() {
            load_dir(&p.to_string_lossy(), out);
        } else if matches!(p.extension().and_then(|x| x.to_str()), Some("qasm") | Some("inc")) {
            if let Ok(s) = std::fs::read_to_string(&p) {
                if s.len() < 20_000 {
                    out.push(s);
                }
            }
        }
    }
}

pub fn verif_root() -> String {
    std::env::var("OQ3_VERIF_ROOT").unwrap_or_else(|_| "/verif".to_string())
}

/// Seed programs: built-ins, the repository's snippets (read at run time), and the committed corpus.
pub fn seed_programs() -> &'static Vec<String> {
    static SEEDS: OnceLock<Vec<String>> = OnceLock::new();
    SEEDS.get_or_init(|| {
        let mut v: Vec<String> = BUILTIN_SEEDS.iter().map(|s| s.to_string()).collect();
        load_dir("/repo/crates/pipeline-tests/tests/snippets", &mut v);
        load_dir(&format!("{}/corpus", verif_root()), &mut v);
        v
    })
}

/// Crude, independent token splitter (identifier runs, digit runs, whitespace runs, single chars).
pub fn crude_tokens(s: &str) -> Vec<(usize, usize)> {
    let mut out = Vec::new();
    let mut it = s.char_indices().peekable();
    while let Some((i, c)) = it.next() {
        let class = |c: char| -> u8 {
            if c.is_alphanumeric() || c == '_' {
                1
            } else if c.is_whitespace() {
                2
            } else {
                0
            }
        };
        let cl = class(c);
        let mut end = i + c.len_utf8();
        if cl != 0 {
            while let Some(&(j, d)) = it.peek() {
                if class(d) == cl {
                    end = j + d.len_utf8();
                    it.next();
                } else {
                    break;
                }
            }
        }
        out.push((i, end));
    }
    out
}

pub fn random_lexeme(r: &mut Rng) -> String {
    match r.below(16) {
        0 | 1 => r.pick(KEYWORDS).to_string(),
        2 => r.pick(TYPES).to_string(),
        3 | 4 | 5 => r.pick(PUNCT).0.to_string(),
        6 => random_ident(r),
        7 => random_int(r).text,
        8 => random_float(r).0,
        9 => random_bitstring(r, 8).0,
        10 => format!("{}{}", r.below(100), r.pick(UNITS)),
        11 => r.pick(&["§", "\0", "😀", "\"", "'", "\\", "`", "a😀b", "/*", "*/", "//"]).to_string(),
        12 => r.pick(&["$0", "$12", "$"]).to_string(),
        13 => r.pick(&["pragma x y\n", "#pragma z\n", "@ann a b\n", "OPENQASM 3.0", "OPENQASM 3", "#dim"]).to_string(),
        14 => r.pick(&["==", "!=", "<=", ">=", "<<", ">>", "**", "++", "->", "&&", "||", "+=", "-=", "<<=", ">>=", "..", "...", "::", "=>"]).to_string(),
        _ => r.pick(&["\"str\"", "'sq'", "\"a\\nb\"", "\"\\x\"", "\"0_1\"", "\"0__1\"", "''"]).to_string(),
    }
}

fn char_floor(s: &str, mut i: usize) -> usize {
    if i > s.len() {
        return s.len();
    }
    while !s.is_char_boundary(i) {
        i -= 1;
    }
    i
}

pub fn mutate(r: &mut Rng, src: &str) -> String {
    let mut s = src.to_string();
    let n_mut = 1 + r.below(4);
    for _ in 0..n_mut {
        let toks = crude_tokens(&s);
        match r.below(12) {
            0 => {
                // delete a token
                if !toks.is_empty() {
                    let (a, b) = toks[r.usize(toks.len())];
                    s.replace_range(a..b, "");
                }
            }
            1 => {
                // duplicate a token
                if !toks.is_empty() {
                    let (a, b) = toks[r.usize(toks.len())];
                    let t = s[a..b].to_string();
                    s.insert_str(b, &t);
                }
            }
            2 | 3 => {
                // substitute a token by a random lexeme
                if !toks.is_empty() {
                    let (a, b) = toks[r.usize(toks.len())];
                    let l = random_lexeme(r);
                    s.replace_range(a..b, &l);
                }
            }
            4 => {
                // insert a random lexeme at a token boundary
                let pos = if toks.is_empty() { 0 } else { toks[r.usize(toks.len())].0 };
                let l = random_lexeme(r);
                s.insert_str(pos, &l);
            }
            5 => {
                // transpose two adjacent tokens
                if toks.len() >= 2 {
                    let i = r.usize(toks.len() - 1);
                    let (a, b) = toks[i];
                    let (c, d) = toks[i + 1];
                    let t1 = s[a..b].to_string();
                    let t2 = s[c..d].to_string();
                    let mid = s[b..c].to_string();
                    s.replace_range(a..d, &format!("{t2}{mid}{t1}"));
                }
            }
            6 => {
                // truncate at a token boundary
                if !toks.is_empty() {
                    let (a, _) = toks[r.usize(toks.len())];
                    s.truncate(a);
                }
            }
            7 => {
                // truncate at a random char boundary
                let i = char_floor(&s, r.usize(s.len() + 1));
                s.truncate(i);
            }
            8 => {
                // delete a char
                if !s.is_empty() {
                    let i = char_floor(&s, r.usize(s.len()));
                    let c = s[i..].chars().next().unwrap();
                    s.replace_range(i..i + c.len_utf8(), "");
                }
            }
            9 => {
                // insert a hostile char
                let i = char_floor(&s, r.usize(s.len() + 1));
                s.insert_str(i, *r.pick(HOSTILE));
            }
            10 => {
                // splice with another seed
                let seeds = seed_programs();
                let other = &seeds[r.usize(seeds.len())];
                let ot = crude_tokens(other);
                let cut_o = if ot.is_empty() { 0 } else { ot[r.usize(ot.len())].0 };
                let cut_s = if toks.is_empty() { 0 } else { toks[r.usize(toks.len())].0 };
                s = format!("{}{}", &s[..cut_s], &other[cut_o..]);
            }
            _ => {
                // wrap a token range in brackets of some kind
                if !toks.is_empty() {
                    let i = r.usize(toks.len());
                    let j = (i + r.usize(4)).min(toks.len() - 1);
                    let (a, _) = toks[i];
                    let (_, d) = toks[j];
                    let (o, c) = *r.pick(&[("(", ")"), ("[", "]"), ("{", "}"), ("/*", "*/"), ("\"", "\"")]);
                    s.insert_str(d, c);
                    s.insert_str(a, o);
                }
            }
        }
        if s.len() > 60_000 {
            let i = char_floor(&s, 60_000);
            s.truncate(i);
        }
    }
    s
}

pub fn mutated_program(r: &mut Rng) -> String {
    let seeds = seed_programs();
    let src = &seeds[r.usize(seeds.len())];
    mutate(r, src)
}

/// Every prefix of a seed program at crude-token boundaries: index -> prefix.
pub fn prefix_count() -> u64 {
    static N: OnceLock<u64> = OnceLock::new();
    *N.get_or_init(|| seed_programs().iter().map(|s| crude_tokens(s).len() as u64 + 1).sum())
}

pub fn prefix_case(mut idx: u64) -> String {
    for s in seed_programs() {
        let toks = crude_tokens(s);
        let n = toks.len() as u64 + 1;
        if idx < n {
            let cut = if (idx as usize) < toks.len() { toks[idx as usize].0 } else { s.len() };
            return s[..cut].to_string();
        }
        idx -= n;
    }
    String::new()
}

/// Whole-file variants of every seed program: byte order mark, line-ending conventions, the
/// lexer's less common whitespace characters as separators, pragma lines under each line ending.
pub const FILE_VARIANTS: u64 = 12;

pub fn file_variant_count() -> u64 {
    seed_programs().len() as u64 * FILE_VARIANTS
}

pub fn file_variant_case(idx: u64) -> String {
    let seeds = seed_programs();
    let p = &seeds[(idx / FILE_VARIANTS) as usize % seeds.len()];
    let crlf = p.replace('\n', "\r\n");
    match idx % FILE_VARIANTS {
        0 => format!("{}{p}", '\u{feff}'),
        1 => crlf,
        2 => format!("{}{crlf}", '\u{feff}'),
        3 => p.replace('\n', "\r"),
        4 => format!("{crlf}pragma a b\r\n#pragma c d\r\nint z_after_pragma;\r\n"),
        5 => format!("pragma first\r\n{p}"),
        6 => p.replace(' ', "\u{000B}"),
        7 => p.replace(' ', "\u{000C}"),
        8 => p.replace('\n', "\u{0085}"),
        9 => p.replace(' ', "\u{2028}").replace('\n', "\u{2029}"),
        10 => p.replace(' ', "\u{200E} \u{200F}"),
        _ => format!("{p}{}", '\u{feff}'),
    }
}

/// Nesting bombs up to the nesting bound of DESIGN.md (256).
pub fn nesting_bomb(r: &mut Rng) -> String {
    let depth = match r.below(4) {
        0 => 256,
        1 => r.range(200, 256),
        _ => r.range(1, 64),
    } as usize;
    let close = r.below(3); // 0 balanced, 1 unclosed, 2 partially closed
    let (pre, open, inner, shut, post): (&str, &str, &str, &str, &str) = match r.below(20) {
        // operators applied to parenthesised operands that are not literals, casts, calls and index
        // chains: nesting that the analysis (not only the parser) walks
        12 => ("int y = ", "-(", "a", ")", ";"),
        13 => ("int y = ", "-(", "1", ")", ";"),
        14 => ("bool b = ", "!(", "c", ")", ";"),
        15 => ("int y = ", "~(", "a", ")", ";"),
        16 => ("float y = ", "float(", "a", ")", ";"),
        17 => ("int y = ", "(a + ", "b", ")", ";"),
        18 => ("int y = ", "a[", "0", "]", ";"),
        19 => ("int y = ", "-(-", "a", ")", ";"),
        0 => ("x = ", "(", "1", ")", ";"),
        1 => ("int y = ", "-", "1", "", ";"),
        2 => ("", "{ ", "int a;", " }", ""),
        3 => ("x = a", "[", "0", "]", ";"),
        4 => ("", "if (c) ", "x = 1;", "", ""),
        5 => ("", "if (c) { ", "x = 1;", " } else { y = 2; }", ""),
        6 => ("", "while (c) { ", "h q;", " }", ""),
        7 => ("x = ", "f(", "1", ")", ";"),
        8 => ("x = ", "int(", "1", ")", ";"),
        9 => ("", "for int i in [0:1] { ", "h q;", " }", ""),
        10 => ("", "gate g a { ", "h a;", " }", ""),
        _ => ("x = ", "1 + (", "2", ")", ";"),
    };
    let mut s = String::from(pre);
    for _ in 0..depth {
        s.push_str(open);
    }
    s.push_str(inner);
    let nclose = match close {
        0 => depth,
        1 => 0,
        _ => r.usize(depth + 1),
    };
    for _ in 0..nclose {
        s.push_str(shut);
    }
    s.push_str(post);
    s
}

/// Random soup of lexemes separated by random (possibly empty) trivia.
pub fn token_soup(r: &mut Rng, maxtok: usize) -> String {
    let n = r.range(1, maxtok as u64);
    let mut s = String::new();
    for _ in 0..n {
        s.push_str(&random_lexeme(r));
        s.push_str(*r.pick(&[" ", " ", " ", "", "\n", "\t", " /* c */ ", " // c\n"]));
    }
    s
}

/// String literals with every escape form (valid, malformed, overlong) next to multi-byte characters.
pub fn escape_string_program(r: &mut Rng) -> String {
    let pieces = [
        "a", "é", "😀", "\\n", "\\q", "\\x4", "\\x80", "\\xZZ", "\\u{41}", "\\u{", "\\u{110000}", "\\u{D800}", "\\u{_1}", "\\", "\\\\", "\r",
        "\\u{1234567}", "\\u{FFFFFFFFF}", "\\u{00000000000041}", "\\u{100000000}", "\\xFFFFFFFFFF", "0", "1", "_", " ", "\\'", "µ", "\\u{}", "\\t", "\u{2028}",
    ];
    let n = r.range(0, 8);
    let mut body = String::new();
    for _ in 0..n {
        body.push_str(*r.pick(&pieces));
    }
    let q = if r.chance(1, 5) { "'" } else { "\"" };
    match r.below(5) {
        0 => format!("include {q}{body}{q};"),
        1 => format!("x = {q}{body}{q};"),
        2 => format!("θ = 1; defcalgrammar {q}{body}{q};"),
        3 => format!("bit[4] é = {q}{body}{q};"),
        _ => format!("/* µ */ f({q}{body}{q}, 1);"),
    }
}

/// `pad` filler tokens followed by a short tail: token counts sweep across the 64-token
/// word boundaries of the parser's jointness bitmap.
pub fn padded_tail(pad: u64, tail: &str) -> String {
    let mut s = String::new();
    for _ in 0..pad / 2 {
        s.push_str("x;");
    }
    if pad % 2 == 1 {
        s.push_str("; ");
    }
    s.push(' ');
    s.push_str(tail);
    s
}

/// Fragments repeated to counts around the usual size boundaries (255/256/257, 1024, 4096, u16):
/// long inputs made of many small errors or many small statements, followed by a valid tail.
const REPEAT_EXTRA: &[&str] = &[
    "int ;", "x = ;", ") ;", "gate ;", "def f( ;", "h q", "1 2", "int[ x;", "} ", "{ ", "if ( ", "else ", "a b;", "@a\n", "pragma p\n",
    "\"s\" ", "'s' ", "0x ", "1e ", "$ ", "§ ", "/* c */ ", "// c\n", "x;", "h q;", "int x = 1;", "[", "(", "let a = ;", "case 1 ",
];
const NESTING_UNITS: &[&str] = &["gphase", "array", "mutable", "(", "{", "[", "-", "+", "if (", "=", "@", "inv", "pow", "#", ">", "*", ".", ":", "else", "if", "for", "while", "return", "measure", "let", "let a = ;", "case", "switch"];
const REPEAT_COUNTS_QUICK: &[u64] = &[8, 100, 255, 256, 257, 300, 1024, 4096];
const REPEAT_COUNTS_THOROUGH: &[u64] = &[8, 100, 127, 128, 255, 256, 257, 300, 511, 512, 1023, 1024, 4095, 4096, 16384, 65535, 65536, 65537];

fn repeat_units() -> Vec<String> {
    let mut v: Vec<String> = crate::mon::c01::small_alphabet().iter().map(|s| format!("{s} ")).collect();
    v.extend(REPEAT_EXTRA.iter().map(|s| s.to_string()));
    v
}

pub fn repeated_count(thorough: bool) -> u64 {
    let c = if thorough { REPEAT_COUNTS_THOROUGH.len() } else { REPEAT_COUNTS_QUICK.len() };
    (repeat_units().len() * c * 2) as u64
}

pub fn repeated_case(i: u64, thorough: bool) -> String {
    let units = repeat_units();
    let counts = if thorough { REPEAT_COUNTS_THOROUGH } else { REPEAT_COUNTS_QUICK };
    let with_tail = i % 2 == 1;
    let i = i / 2;
    let u = &units[(i as usize) % units.len()];
    let mut n = counts[(i as usize / units.len()) % counts.len()];
    // units that open a nesting level stay within the nesting bound of DESIGN.md (256)
    if NESTING_UNITS.contains(&u.trim()) {
        n = n.min(250);
    }
    let mut s = String::with_capacity(u.len() * n as usize + 32);
    for _ in 0..n {
        s.push_str(u);
    }
    if with_tail {
        s.push_str("\nqubit q; h q; int tail = 1;\n");
    }
    s
}


/// Every construct slot x every short token sequence: a template with one hole, filled with every
/// sequence of one and of two symbols of the full token alphabet.
pub const HOLE_TEMPLATES: &[&str] = &[
    "def f(int a) -> § { }", "extern g(int) -> §;", "int[§] x;", "array[§, 2] a;", "def f(§ a) { }", "for § i in [0:2] { }", "const § x = 1;",
    "input § x;", "gate g(§) q { }", "x = §(y);", "delay[§] q;", "switch (x) { case § { } }", "U(§) q;", "ctrl(§) @ x q, r;", "let a = §;", "a[§] = 1;",
    "measure § -> c;", "defcal x(§) $0 { }", "box[§] { }", "pow(§) @ x q;", "if (§) x = 1; else y = 2;", "return §;", "def f(readonly array[int, §] a) { }",
    "complex[§] z;",
];

pub fn hole_count() -> u64 {
    let n = crate::mon::c01::full_alphabet().len() as u64;
    HOLE_TEMPLATES.len() as u64 * (n + n * n)
}

pub fn hole_case(i: u64) -> String {
    let al = crate::mon::c01::full_alphabet();
    let n = al.len() as u64;
    let per = n + n * n;
    let t = HOLE_TEMPLATES[(i / per) as usize % HOLE_TEMPLATES.len()];
    let k = i % per;
    let fill = if k < n { al[k as usize].clone() } else { format!("{} {}", al[((k - n) % n) as usize], al[((k - n) / n) as usize]) };
    t.replace('§', &fill)
}


/// Every list construct with 0..=40 elements: the number of elements is a dimension of its own.
pub const LIST_TEMPLATES: &[(&str, &str, &str)] = &[
    // (text with the hole §, element, separator)
    ("array[int[8], §] a;", "2", ", "),
    ("def f(readonly array[int[8], §] a) { }", "2", ", "),
    ("array[int[8], 3] a = {§};", "1", ", "),
    ("gate g(§) q { }", "p%", ", "),
    ("gate g §{ }", "q%", ", "),
    ("def f(§) { }", "int p%", ", "),
    ("x = f(§);", "%", ", "),
    ("U(§) q;", "1", ", "),
    ("cx §;", "q[%]", ", "),
    ("barrier §;", "$%", ", "),
    ("x = a[§];", "%", ", "),
    ("x = a§;", "[%]", ""),
    ("switch (x) { case § { } }", "%", ", "),
    ("switch (x) { § default { } }", "case % { }", " "),
    ("for int i in {§} { }", "%", ", "),
    ("§x q;", "inv @ ", ""),
    ("§x q, r;", "ctrl @ ", ""),
    ("let a = §;", "q[%]", " ++ "),
    ("x = §;", "%", " + "),
    ("x = §1;", "-", ""),
    ("extern f(§) -> int;", "int", ", "),
    ("§", "int v%;", " "),
    ("§", "@a%\n", ""),
    ("§int x;", "pragma p%\n", ""),
    ("if (c) § x = 1;", "{ } else if (c)", " "),
    ("int[8] x = §;", "0x%", " | "),
    ("qubit[§] q;", "1", " * "),
];

pub fn list_length_count() -> u64 {
    LIST_TEMPLATES.len() as u64 * 41
}

pub fn list_length_case(i: u64) -> String {
    let (t, e, sep) = LIST_TEMPLATES[(i / 41) as usize % LIST_TEMPLATES.len()];
    let k = i % 41;
    let items: Vec<String> = (0..k).map(|j| e.replace('%', &j.to_string())).collect();
    t.replace('§', &items.join(sep))
}

/// A fragment repeated to a count around 100 and 256, followed by a tail that is itself erroneous or a
/// lone symbol: what the parser does *after* its n-th diagnostic.
pub fn counted_tail_count() -> u64 {
    let u = repeat_units().len() as u64;
    u * 6 * u
}

pub fn counted_tail_case(i: u64) -> String {
    let units = repeat_units();
    let u = units.len() as u64;
    let tail = &units[(i % u) as usize];
    let n = [98u64, 99, 100, 101, 255, 256][((i / u) % 6) as usize];
    let unit = &units[(i / u / 6) as usize % units.len()];
    let n = if NESTING_UNITS.contains(&unit.trim()) { n.min(250) } else { n };
    let mut s = String::new();
    for _ in 0..n {
        s.push_str(unit);
        s.push('\n');
    }
    s.push_str(tail);
    s.push_str("\nint after = 1;\n");
    s
}

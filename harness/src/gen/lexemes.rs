//! Lexeme table written from the OpenQASM 3 lexical grammar, independent of the code under
//! observation. Each lexeme class carries the *name* of the parser-facing kind it must get.

use crate::rng::Rng;

pub const KEYWORDS: &[&str] = &[
    "barrier", "box", "cal", "const", "def", "defcal", "defcalgrammar", "delay", "extern", "gate", "gphase",
    "include", "let", "measure", "pragma", "dim", "reset", "break", "case", "continue", "default", "else", "end",
    "for", "if", "in", "return", "switch", "while", "array", "creg", "input", "mutable", "output", "qreg", "qubit",
    "readonly", "void", "ctrl", "inv", "negctrl", "pow", "false", "true",
];

pub const TYPES: &[&str] = &["angle", "bit", "bool", "complex", "duration", "float", "int", "stretch", "uint"];

pub const PUNCT: &[(&str, &str)] = &[
    (";", "SEMICOLON"),
    (",", "COMMA"),
    (".", "DOT"),
    ("(", "L_PAREN"),
    (")", "R_PAREN"),
    ("{", "L_CURLY"),
    ("}", "R_CURLY"),
    ("[", "L_BRACK"),
    ("]", "R_BRACK"),
    ("@", "AT"),
    ("#", "POUND"),
    ("~", "TILDE"),
    ("?", "QUESTION"),
    (":", "COLON"),
    ("$", "DOLLAR"),
    ("=", "EQ"),
    ("!", "BANG"),
    ("<", "L_ANGLE"),
    (">", "R_ANGLE"),
    ("-", "MINUS"),
    ("&", "AMP"),
    ("|", "PIPE"),
    ("+", "PLUS"),
    ("*", "STAR"),
    ("/", "SLASH"),
    ("^", "CARET"),
    ("%", "PERCENT"),
    ("_", "UNDERSCORE"),
];

pub const UNITS: &[&str] = &["dt", "ns", "us", "µs", "ms", "s"];

pub const IDENTS_ASCII: &[&str] = &["a", "b", "q", "x1", "_x1", "foo_bar", "c0", "Z", "__a"];
pub const IDENTS_UNICODE: &[&str] = &["θ", "Δx", "ñ", "变量", "π2", "été", "μs", "μ", "π", "τ", "ℇ", "_q", "_tmp1"];
pub const IDENTS_LOOKALIKE: &[&str] = &[
    "pragmatic", "pi", "OPENQASMx", "O", "p", "pr", "pragm", "dimension", "inv2", "OPEN", "im", "dts", "sx", "ifx",
    "elsewhere", "input1", "e3", "b1", "o7", "xF",
];

pub fn keyword_kind(kw: &str) -> String {
    format!("{}_KW", kw.to_uppercase())
}

pub fn type_kind(t: &str) -> String {
    format!("{}_TY", t.to_uppercase())
}

/// A spelled integer literal together with its mathematical value.
pub struct IntSpelling {
    pub text: String,
    pub value: u128,
    pub radix: u32,
}

fn digits_in_radix(mut v: u128, radix: u32, upper: bool) -> String {
    if v == 0 {
        return "0".to_string();
    }
    let mut ds = Vec::new();
    while v > 0 {
        let d = (v % radix as u128) as u32;
        let c = std::char::from_digit(d, radix).unwrap();
        ds.push(if upper { c.to_ascii_uppercase() } else { c });
        v /= radix as u128;
    }
    ds.iter().rev().collect()
}

/// Spell `value` in `radix` with optional underscores between digits (never leading in decimal,
/// never doubled is NOT required by the integer grammar; we only place single underscores).
pub fn spell_int(value: u128, radix: u32, upper_prefix: bool, upper_digits: bool, underscores: u32, r: &mut Rng) -> IntSpelling {
    let mut digits = digits_in_radix(value, radix, upper_digits);
    // underscore placement: 0 none, 1 between some digits, 2 trailing, 3 after prefix (non-decimal)
    let mut out = String::new();
    match underscores {
        1 if digits.len() > 1 => {
            let mut s = String::new();
            for (i, c) in digits.chars().enumerate() {
                if i > 0 && r.chance(1, 3) {
                    s.push('_');
                }
                s.push(c);
            }
            digits = s;
        }
        2 => digits.push('_'),
        // leading zeros up to exactly the digit count of 2^128-1 in this radix (4) and two beyond it (5)
        4 | 5 => {
            let max_digits = match radix {
                2 => 128,
                8 => 43,
                16 => 32,
                _ => 39,
            };
            let want = if underscores == 4 { max_digits } else { max_digits + 2 };
            while digits.len() < want {
                digits.insert(0, '0');
            }
        }
        _ => {}
    }
    match radix {
        2 => out.push_str(if upper_prefix { "0B" } else { "0b" }),
        8 => out.push_str(if upper_prefix { "0O" } else { "0o" }),
        16 => out.push_str(if upper_prefix { "0X" } else { "0x" }),
        _ => {}
    }
    if underscores == 3 && radix != 10 {
        out.push('_');
    }
    out.push_str(&digits);
    IntSpelling {
        text: out,
        value,
        radix,
    }
}

pub fn random_int_value(r: &mut Rng) -> u128 {
    match r.below(10) {
        0 => *r.pick(&[0u128, 1, 2, 7, 8, 9, 10, 15, 16, 255, 256]),
        1 => {
            let k = *r.pick(&[32u32, 64]);
            let base = 1u128 << k;
            match r.below(3) {
                0 => base - 1,
                1 => base,
                _ => base + 1,
            }
        }
        2 => u128::MAX,
        _ => {
            // log-uniform
            let bits = r.range(1, 128) as u32;
            let v = r.u128();
            if bits == 128 {
                v
            } else {
                v & ((1u128 << bits) - 1)
            }
        }
    }
}

pub fn random_int(r: &mut Rng) -> IntSpelling {
    let radix = *r.pick(&[2u32, 8, 10, 16]);
    let mut v = random_int_value(r);
    if radix == 2 && r.chance(3, 4) {
        v &= 0xFFFF_FFFF;
    }
    let us = r.below(4) as u32;
    let (up, ud) = (r.chance(1, 4), r.bool());
    spell_int(v, radix, up, ud, us, r)
}

/// Float spellings: (text, canonical text without underscores for reference parsing).
pub fn random_float(r: &mut Rng) -> (String, String) {
    let int_part = || -> String { String::new() };
    let _ = int_part;
    let digs = |r: &mut Rng, min: usize, max: usize, us: bool| -> String {
        let n = r.range(min as u64, max as u64) as usize;
        let mut s = String::new();
        for i in 0..n {
            if us && i > 0 && r.chance(1, 4) {
                s.push('_');
            }
            s.push(std::char::from_digit(r.below(10) as u32, 10).unwrap());
        }
        s
    };
    let us = r.chance(1, 3);
    let shape = r.below(6);
    let exp = |r: &mut Rng| -> String {
        let e = if r.bool() { "e" } else { "E" };
        let sign = *r.pick(&["", "+", "-"]);
        let n = r.range(0, 30);
        let mut d = n.to_string();
        if r.chance(1, 5) && d.len() > 1 {
            d.insert(1, '_');
        }
        format!("{e}{sign}{d}")
    };
    let text = match shape {
        0 => format!("{}.{}", digs(r, 1, 6, us), digs(r, 1, 6, us)),
        1 => format!("{}.", digs(r, 1, 6, us)),
        2 => format!(".{}", digs(r, 1, 6, us)),
        3 => format!("{}{}", digs(r, 1, 5, us), exp(r)),
        4 => format!("{}.{}{}", digs(r, 1, 5, us), digs(r, 1, 5, us), exp(r)),
        _ => format!(".{}{}", digs(r, 1, 5, us), exp(r)),
    };
    let canon: String = text.chars().filter(|c| *c != '_').collect();
    (text, canon)
}

pub fn random_bitstring(r: &mut Rng, maxlen: usize) -> (String, String) {
    let n = r.range(1, maxlen as u64) as usize;
    let mut text = String::from("\"");
    let mut bits = String::new();
    for i in 0..n {
        if i > 0 && r.chance(1, 6) {
            text.push('_');
        }
        let b = if r.bool() { '1' } else { '0' };
        text.push(b);
        bits.push(b);
    }
    text.push('"');
    (text, bits)
}

pub fn random_ident(r: &mut Rng) -> String {
    match r.below(10) {
        0..=5 => r.pick(IDENTS_ASCII).to_string(),
        6..=7 => r.pick(IDENTS_UNICODE).to_string(),
        _ => r.pick(IDENTS_LOOKALIKE).to_string(),
    }
}

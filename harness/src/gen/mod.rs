pub mod lexemes;
pub mod strings;
pub mod programs;
pub mod modelgen;

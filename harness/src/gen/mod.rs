pub mod lexemes;
pub mod strings;

//! Text-level random program generator (grammar based).  Names come from a small pool so that
//! shadowing, duplicates, undeclared uses, built-ins and standard gate names collide constantly.
//! `wide` adds constructs the analyser may not support.

use crate::rng::Rng;

pub struct G<'a> {
    pub r: &'a mut Rng,
    pub wide: bool,
    pub depth: u32,
    pub max_depth: u32,
    /// probability (per 100) of deliberately breaking a semantic rule at a site
    pub fault: u64,
}

const NAMES: &[&str] = &["a", "b", "c", "q", "r", "f", "g", "n", "x", "pi", "U", "h", "cx", "θ"];
const QNAMES: &[&str] = &["q", "r", "a", "$0", "$1"];
const GATES1: &[&str] = &["h", "x", "y", "z", "s", "t", "sx", "id", "sdg"];
const GATES1P: &[&str] = &["rx", "ry", "rz", "p", "phase", "u1"];
const GATES2: &[&str] = &["cx", "cz", "swap", "CX", "cy", "ch"];
const SCALARS: &[&str] = &["int", "uint", "float", "angle", "bool", "bit", "complex", "duration", "stretch"];

impl<'a> G<'a> {
    pub fn new(r: &'a mut Rng, wide: bool, fault: u64) -> G<'a> {
        G {
            r,
            wide,
            depth: 0,
            max_depth: 4,
            fault,
        }
    }

    fn name(&mut self) -> String {
        self.r.pick(NAMES).to_string()
    }

    fn qname(&mut self) -> String {
        self.r.pick(QNAMES).to_string()
    }

    pub fn ty(&mut self) -> String {
        let base = *self.r.pick(SCALARS);
        match base {
            "int" | "uint" | "float" | "angle" | "bit" => {
                if self.r.chance(1, 2) {
                    let w = match self.r.below(8) {
                        0 => "n".to_string(),
                        1 if self.wide => "2 * 4".to_string(),
                        2 if self.wide => "-1".to_string(),
                        3 if self.wide => "4294967296".to_string(),
                        _ => self.r.pick(&["1", "2", "8", "16", "32", "64", "128"]).to_string(),
                    };
                    format!("{base}[{w}]")
                } else {
                    base.to_string()
                }
            }
            "complex" => {
                if self.r.chance(1, 2) {
                    format!("complex[float[{}]]", self.r.pick(&["32", "64"]))
                } else if self.r.chance(1, 4) {
                    "complex[float]".to_string()
                } else {
                    base.to_string()
                }
            }
            _ => base.to_string(),
        }
    }

    fn literal(&mut self) -> String {
        match self.r.below(if self.wide { 14 } else { 9 }) {
            0 | 1 => self.r.below(20).to_string(),
            2 => format!("{}.{}", self.r.below(10), self.r.below(100)),
            3 => self.r.pick(&["true", "false"]).to_string(),
            4 => format!("{}{}", self.r.below(100), self.r.pick(&["ns", "us", "ms", "s", "dt", "µs"])),
            5 => format!("{}im", self.r.below(10)),
            6 => format!("{}.5im", self.r.below(10)),
            7 => self.r.pick(&["\"0101\"", "\"1\"", "\"0_1\""]).to_string(),
            8 => self.r.pick(&["0xFF", "0b101", "0o17", "1e3", "1_000"]).to_string(),
            9 => "340282366920938463463374607431768211456".to_string(),
            10 => "\"a string\"".to_string(),
            11 => "1e999".to_string(),
            12 => "0x1_0000_0000_0000_0000_0000_0000_0000_0000".to_string(),
            _ => "2.5ns".to_string(),
        }
    }

    pub fn expr(&mut self, d: u32) -> String {
        if d == 0 || self.r.chance(2, 5) {
            return match self.r.below(4) {
                0 | 1 => self.name(),
                _ => self.literal(),
            };
        }
        let n = if self.wide { 16 } else { 11 };
        match self.r.below(n) {
            0..=3 => {
                let ops: &[&str] = if self.wide {
                    &["+", "-", "*", "/", "%", "**", "<<", ">>", "&", "|", "^", "==", "!=", "<", "<=", ">", ">=", "&&", "||", "++"]
                } else {
                    &["+", "-", "*", "/", "%", "<<", ">>", "&", "|", "^", "==", "!="]
                };
                let op = *self.r.pick(ops);
                format!("{} {} {}", self.expr(d - 1), op, self.expr(d - 1))
            }
            4 => format!("({})", self.expr(d - 1)),
            5 => format!("-{}", self.expr(d - 1)),
            6 => format!("{}({})", self.ty(), self.expr(d - 1)),
            7 => {
                let nargs = self.r.below(3);
                let args: Vec<String> = (0..nargs).map(|_| self.expr(d - 1)).collect();
                format!("{}({})", self.name(), args.join(", "))
            }
            8 => format!("{}[{}]", self.name(), self.expr(d - 1)),
            9 => format!("measure {}", self.operand()),
            10 => format!("{}[{}:{}]", self.name(), self.r.below(3), self.r.below(8)),
            11 => format!("!{}", self.expr(d - 1)),
            12 => format!("~{}", self.expr(d - 1)),
            13 => format!("{}[{{1, 2}}]", self.name()),
            14 => format!("({})[{}]", self.expr(d - 1), self.r.below(3)),
            _ => format!("{}[{}][{}]", self.name(), self.r.below(3), self.r.below(3)),
        }
    }

    fn operand(&mut self) -> String {
        let q = self.qname();
        if !q.starts_with('$') && self.r.chance(1, 3) {
            format!("{q}[{}]", self.r.below(4))
        } else {
            q
        }
    }

    fn operands(&mut self, n: u64) -> String {
        (0..n).map(|_| self.operand()).collect::<Vec<_>>().join(", ")
    }

    fn body(&mut self) -> String {
        // block or single statement
        if self.r.chance(2, 3) {
            self.block()
        } else if self.r.chance(1, 6) {
            // a single-statement body that translates to no statement of its own
            self.r.pick(&[";", "gphase();", "@in_body note\n", "OPENQASM 3.0;", "include \"nested.inc\";", "pragma in body\n", "while (false) ;"]).to_string()
        } else {
            self.depth += 1;
            let s = self.stmt_no_decl();
            self.depth -= 1;
            s
        }
    }

    pub fn block(&mut self) -> String {
        self.depth += 1;
        let n = self.r.below(4);
        let mut s = String::from("{ ");
        for _ in 0..n {
            s.push_str(&self.stmt());
            s.push(' ');
        }
        s.push('}');
        self.depth -= 1;
        s
    }

    fn gate_call(&mut self) -> String {
        let mut s = String::new();
        let nmods = if self.r.chance(1, 3) { self.r.range(1, 3) } else { 0 };
        for _ in 0..nmods {
            match self.r.below(4) {
                0 => s.push_str("inv @ "),
                1 => s.push_str(&format!("pow({}) @ ", self.r.below(4))),
                2 => s.push_str(if self.r.bool() { "ctrl @ " } else { "ctrl(2) @ " }),
                _ => s.push_str(if self.r.bool() { "negctrl @ " } else { "negctrl(2) @ " }),
            }
        }
        let off = |g: &mut G, n: u64| -> u64 {
            if g.r.chance(g.fault, 100) {
                if g.r.bool() {
                    n + 1
                } else {
                    n.saturating_sub(1)
                }
            } else {
                n
            }
        };
        match self.r.below(7) {
            0 | 1 => {
                let n = off(self, 1).max(1);
                s.push_str(&format!("{} {};", self.r.pick(GATES1), self.operands(n)));
            }
            2 => {
                let np = off(self, 1);
                let args: Vec<String> = (0..np).map(|_| self.expr(1)).collect();
                let a = if np == 0 { String::new() } else { format!("({})", args.join(", ")) };
                s.push_str(&format!("{}{} {};", self.r.pick(GATES1P), a, self.operands(1)));
            }
            3 => {
                let n = off(self, 2).max(1);
                s.push_str(&format!("{} {};", self.r.pick(GATES2), self.operands(n)));
            }
            4 => {
                let np = off(self, 3);
                let args: Vec<String> = (0..np).map(|_| self.expr(1)).collect();
                let a = if np == 0 { String::new() } else { format!("({})", args.join(", ")) };
                s.push_str(&format!("U{} {};", a, self.operands(1)));
            }
            5 => s.push_str(&format!("gphase({});", self.expr(1))),
            _ => {
                let nq = self.r.range(1, 3);
                let np = self.r.below(3);
                let args: Vec<String> = (0..np).map(|_| self.expr(1)).collect();
                let a = if np == 0 { String::new() } else { format!("({})", args.join(", ")) };
                s.push_str(&format!("{}{} {};", self.name(), a, self.operands(nq)));
            }
        }
        s
    }

    fn stmt_no_decl(&mut self) -> String {
        match self.r.below(10) {
            0 | 1 => self.gate_call(),
            2 => format!("{} = {};", self.name(), self.expr(2)),
            3 => format!("{} {}= {};", self.name(), self.r.pick(&["+", "-", "*", "/", "&", "|", "^", "<<", ">>", "%"]), self.expr(1)),
            4 => format!("reset {};", self.operand()),
            5 => format!("{} = measure {};", self.name(), self.operand()),
            6 => "break;".to_string(),
            7 => "continue;".to_string(),
            8 => format!("{}[{}] = {};", self.name(), self.r.below(4), self.expr(1)),
            _ => format!("{};", self.expr(2)),
        }
    }

    pub fn stmt(&mut self) -> String {
        let deep = self.depth >= self.max_depth;
        let n = if self.wide { 44 } else { 34 };
        let k = self.r.below(n);
        match k {
            0..=3 => {
                let c = if self.r.chance(1, 4) { "const " } else { "" };
                if self.r.chance(2, 3) {
                    format!("{c}{} {} = {};", self.ty(), self.name(), self.expr(2))
                } else {
                    format!("{c}{} {};", self.ty(), self.name())
                }
            }
            4 => {
                if self.r.chance(1, 6) {
                    // the hardware-qubit form has no name node
                    format!("qubit {};", self.r.pick(&["$0", "$1", "$12"]))
                } else if self.r.bool() {
                    format!("qubit {};", self.name())
                } else {
                    format!("qubit[{}] {};", self.r.pick(&["1", "2", "4", "n"]), self.name())
                }
            }
            5 | 6 => self.gate_call(),
            7 if !deep => {
                let np = self.r.below(3);
                let nq = self.r.range(1, 3);
                let ps: Vec<String> = (0..np).map(|_| self.name()).collect();
                let qs: Vec<String> = (0..nq).map(|_| self.name()).collect();
                let p = if np == 0 && self.r.bool() { String::new() } else { format!("({})", ps.join(", ")) };
                format!("gate {}{} {} {}", self.name(), p, qs.join(", "), self.block())
            }
            8 if !deep => {
                let np = self.r.below(3);
                let ps: Vec<String> = (0..np)
                    .map(|_| {
                        if self.r.chance(1, 4) {
                            format!("qubit {}", self.name())
                        } else {
                            format!("{} {}", self.ty(), self.name())
                        }
                    })
                    .collect();
                let ret = if self.r.bool() { format!(" -> {}", self.ty()) } else { String::new() };
                format!("def {}({}){} {}", self.name(), ps.join(", "), ret, self.block())
            }
            9 if !deep => {
                let els = match self.r.below(3) {
                    0 => String::new(),
                    1 => format!(" else {}", self.body()),
                    _ => format!(" else if ({}) {}", self.expr(1), self.body()),
                };
                format!("if ({}) {}{}", self.expr(2), self.body(), els)
            }
            10 if !deep => format!("while ({}) {}", self.expr(2), self.body()),
            11 if !deep => {
                let it = match self.r.below(3) {
                    0 => format!("[{}:{}]", self.r.below(3), self.r.below(10)),
                    1 => format!("{{{}, {}}}", self.r.below(5), self.r.below(5)),
                    _ => self.name(),
                };
                format!("for {} {} in {} {}", self.ty(), self.name(), it, self.body())
            }
            12 if !deep => {
                let nc = self.r.below(3);
                let mut s = format!("switch ({}) {{ ", self.expr(1));
                for _ in 0..nc {
                    s.push_str(&format!("case {} {} ", self.r.below(5), self.block()));
                }
                if self.r.bool() || nc == 0 {
                    s.push_str(&format!("default {} ", self.block()));
                }
                s.push('}');
                s
            }
            13 => format!("{} = {};", self.name(), self.expr(2)),
            14 => format!("{} {}= {};", self.name(), self.r.pick(&["+", "-", "*", "/"]), self.expr(1)),
            15 => format!("let {} = {};", self.name(), if self.r.bool() { format!("{} ++ {}", self.operand(), self.operand()) } else { self.operand() }),
            16 => format!("reset {};", self.operand()),
            17 => {
                if self.r.chance(1, 5) {
                    "barrier;".to_string()
                } else {
                    let n = self.r.range(1, 3);
                    format!("barrier {};", self.operands(n))
                }
            }
            18 => format!("delay[{}] {};", self.expr(1), self.operands(1)),
            19 => format!("{} = measure {};", self.name(), self.operand()),
            20 => format!("bit {} = measure {};", self.name(), self.operand()),
            21 => format!("measure {};", self.operand()),
            22 => format!("return {};", self.expr(1)),
            23 => "return;".to_string(),
            24 => self.r.pick(&["break;", "continue;", "end;"]).to_string(),
            25 => format!("{};", self.expr(2)),
            26 => self
                .r
                .pick(&[
                    "include \"stdgates.inc\";",
                    "include \"stdgates.inc\";",
                    "include \"stdgates.inc\";",
                    "include 'stdgates.inc';",
                    "include \"qelib/stdgates.inc\";",
                    "include \"./no_such_dir/stdgates.inc\";",
                    "include \"no_such_file.inc\";",
                    "include \"\";",
                ])
                .to_string(),
            28 if self.r.chance(1, 4) => self.r.pick(&["pragma\n", "#pragma\n", "pragma \n", "#pragma x\r\n", "pragma\r\n"]).to_string(),
            27 => format!("{} {} {};", self.r.pick(&["input", "output"]), self.ty(), self.name()),
            28 => "pragma some text here\n".to_string(),
            29 => "@annot some words\n".to_string(),
            30 => format!("{}[{}] = {};", self.name(), self.r.below(4), self.expr(1)),
            31 => format!("{} {};", self.ty(), self.name()),
            32 => format!("const {} {} = {};", self.ty(), self.name(), self.literal()),
            33 => format!("{}({});", self.name(), self.expr(1)),
            // ---- wider grammar
            34 => format!("array[{}, {}] {};", self.r.pick(&["int[8]", "float", "bool"]), self.r.pick(&["2", "2, 3", "n"]), self.name()),
            35 => format!("array[int, 2] {} = {{1, 2}};", self.name()),
            36 => format!("box {}", self.block()),
            37 => format!("box[{}] {}", self.literal(), self.block()),
            38 => "cal { anything goes }".to_string(),
            39 => format!("defcal {} {} {{ }}", self.name(), self.operands(1)),
            40 => {
                let n = self.name();
                match self.r.below(6) {
                    0 => format!("extern {n} -> int;"),
                    1 => format!("extern {n}();"),
                    2 => format!("extern {n}(int);"),
                    3 => format!("extern {n}(int,) -> int;"),
                    4 => format!("extern {n};"),
                    _ => format!("extern {n}(int, float[32]) -> bit;"),
                }
            }
            41 => format!("{} {}[{}];", self.r.pick(&["qreg", "creg"]), self.name(), self.r.below(4)),
            42 => self.block(),
            43 => format!("measure {} -> {};", self.operand(), self.name()),
            _ => self.stmt_no_decl(),
        }
    }

    pub fn program(&mut self, max_stmts: u64) -> String {
        let n = self.r.range(1, max_stmts);
        let mut s = String::new();
        if self.r.chance(1, 2) {
            s.push_str("include \"stdgates.inc\";\n");
        }
        for _ in 0..n {
            s.push_str(&self.stmt());
            s.push_str(*self.r.pick(&["\n", " ", "\n", " // c\n", " /* µ */ "]));
        }
        s
    }
}

/// Programs of the supported subset; semantic faults arise from the small name pool and from
/// deliberate arity faults.
pub fn faulty_program(r: &mut Rng) -> String {
    let mut g = G::new(r, false, 20);
    g.program(8)
}

/// Programs of the wider grammar.
pub fn wide_program(r: &mut Rng) -> String {
    let mut g = G::new(r, true, 10);
    g.program(6)
}

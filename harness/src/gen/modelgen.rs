//! Random generation of model programs (see model.rs).

use crate::model::*;
use crate::rng::Rng;

#[derive(Clone)]
pub struct GenCfg {
    pub max_depth: u32,
    pub max_stmts: u64,
    pub expr_depth: u32,
    /// do not emit constructs whose *parse* is a recorded known finding (C04)
    pub syn_safe: bool,
    /// do not emit constructs whose *analysis* dies at a recorded known panic site (C03) or whose
    /// translation is a recorded known finding (C06)
    pub sem_safe: bool,
    pub names: Vec<&'static str>,
    pub qnames: Vec<&'static str>,
    /// every identifier/literal distinct (so that graph nodes identify model nodes)
    pub unique_leaves: bool,
}

impl GenCfg {
    pub fn syntax() -> GenCfg {
        GenCfg {
            max_depth: 4,
            max_stmts: 6,
            expr_depth: 3,
            syn_safe: false,
            sem_safe: false,
            names: vec!["a", "b", "c", "n", "x", "f", "g", "pi", "θ"],
            qnames: vec!["q", "r", "qq"],
            unique_leaves: false,
        }
    }
    pub fn semantic() -> GenCfg {
        GenCfg {
            syn_safe: true,
            sem_safe: true,
            ..GenCfg::syntax()
        }
    }
}

pub struct MG<'a> {
    pub r: &'a mut Rng,
    pub cfg: GenCfg,
    pub next_id: Id,
    depth: u32,
    counter: u64,
    in_gate_or_def: bool,
}

pub const N_STMT_KINDS: u64 = 30;

pub const SEM_SAFE_OPS: &[BinOp] = &[
    BinOp::Mul,
    BinOp::Div,
    BinOp::Rem,
    BinOp::Add,
    BinOp::Sub,
    BinOp::Shl,
    BinOp::Shr,
    BinOp::Eq,
    BinOp::Ne,
    BinOp::BitAnd,
    BinOp::BitXor,
    BinOp::BitOr,
];

impl<'a> MG<'a> {
    pub fn new(r: &'a mut Rng, cfg: GenCfg) -> MG<'a> {
        MG {
            r,
            cfg,
            next_id: 1,
            depth: 0,
            counter: 0,
            in_gate_or_def: false,
        }
    }

    pub fn e(&mut self, k: EK) -> E {
        let id = self.next_id;
        self.next_id += 1;
        E { id, k }
    }

    pub fn s(&mut self, k: SK) -> S {
        let id = self.next_id;
        self.next_id += 1;
        S { id, k }
    }

    fn fresh(&mut self) -> u64 {
        self.counter += 1;
        self.counter
    }

    pub fn name(&mut self) -> String {
        let n = self.r.pick(&self.cfg.names).to_string();
        if self.cfg.unique_leaves {
            format!("{n}{}", self.fresh())
        } else {
            n
        }
    }

    pub fn qname(&mut self) -> String {
        self.r.pick(&self.cfg.qnames).to_string()
    }

    pub fn ident(&mut self) -> E {
        let n = self.name();
        self.e(EK::Ident(n))
    }

    pub fn int_lit(&mut self) -> E {
        let v = if self.cfg.unique_leaves { 100 + self.fresh() } else { self.r.below(20) };
        let s = match self.r.below(8) {
            0 => format!("0x{v:X}"),
            1 => format!("0b{v:b}"),
            2 => format!("0o{v:o}"),
            _ => v.to_string(),
        };
        self.e(EK::Int(s))
    }

    pub fn ty(&mut self) -> MTy {
        let base = *self.r.pick(&[Base::Int, Base::Int, Base::UInt, Base::Float, Base::Float, Base::Angle, Base::Bool, Base::Bit, Base::Complex, Base::Duration, Base::Stretch]);
        let width = if base.takes_width() && self.r.chance(1, 2) {
            Some(*self.r.pick(&[1u64, 2, 8, 16, 32, 64]))
        } else {
            None
        };
        let width = if base == Base::Complex { width.map(|_| *self.r.pick(&[32u64, 64])) } else { width };
        MTy::new(base, width)
    }

    pub fn literal(&mut self) -> E {
        match self.r.below(9) {
            0..=2 => self.int_lit(),
            3 | 4 => {
                // every shape of a float: fraction, bare dot, leading dot, exponent with either marker and
                // sign, a zero mantissa
                let f = if self.cfg.unique_leaves {
                    let n = self.fresh();
                    match self.r.below(6) {
                        0 => format!("{n}E0"),
                        1 => format!("{n}.e0"),
                        2 => format!("{n}.5E+0"),
                        _ => format!("{n}.5"),
                    }
                } else {
                    let (a, b, k) = (self.r.below(10), self.r.below(100), self.r.below(4));
                    match self.r.below(12) {
                        0 => format!("{a}e{k}"),
                        1 => format!("{a}E{k}"),
                        2 => format!("0E{k}"),
                        3 => format!("0e-{k}"),
                        4 => format!("{a}.e{k}"),
                        5 => format!(".{b}"),
                        6 => format!("{a}."),
                        7 => format!("{a}.{b}E-{k}"),
                        _ => format!("{a}.{b}"),
                    }
                };
                self.e(EK::Float(f))
            }
            5 => {
                let b = self.r.bool();
                self.e(EK::Bool(b))
            }
            6 => {
                let n = self.r.range(1, 6);
                let bits: String = (0..n).map(|_| if self.r.bool() { '1' } else { '0' }).collect();
                self.e(EK::BitStr(format!("\"{bits}\"")))
            }
            7 => {
                let u = self.r.pick(&["ns", "us", "ms", "s", "dt", "µs"]).to_string();
                let n = if self.cfg.unique_leaves { self.fresh() } else { self.r.below(100) };
                if self.r.chance(1, 4) {
                    self.e(EK::Timing(format!("{n}.5"), u, true))
                } else {
                    self.e(EK::Timing(n.to_string(), u, false))
                }
            }
            _ => {
                let n = if self.cfg.unique_leaves { self.fresh() } else { self.r.below(10) };
                if self.r.bool() {
                    self.e(EK::Imag(format!("{n}.5"), true))
                } else {
                    self.e(EK::Imag(n.to_string(), false))
                }
            }
        }
    }

    pub fn operand(&mut self) -> E {
        match self.r.below(6) {
            0 => {
                let n = format!("${}", self.r.below(4));
                self.e(EK::HwQubit(n))
            }
            1 | 2 => {
                let q = self.qname();
                let b = self.e(EK::Ident(q));
                let i = self.int_lit();
                self.e(EK::Index(Box::new(b), vec![MIndex::List(vec![i])]))
            }
            _ => {
                let q = self.qname();
                self.e(EK::Ident(q))
            }
        }
    }

    fn binops(&self) -> Vec<BinOp> {
        if self.cfg.sem_safe {
            SEM_SAFE_OPS.to_vec()
        } else {
            ALL_BINOPS.to_vec()
        }
    }

    pub fn expr(&mut self, d: u32) -> E {
        if d == 0 || self.r.chance(1, 3) {
            return if self.r.chance(3, 5) { self.ident() } else { self.literal() };
        }
        match self.r.below(12) {
            0..=4 => {
                let ops = self.binops();
                let op = *self.r.pick(&ops);
                let l = self.expr(d - 1);
                let r = self.expr(d - 1);
                self.e(EK::Binary(op, Box::new(l), Box::new(r)))
            }
            5 => {
                let op = if self.cfg.sem_safe {
                    UnOp::Neg
                } else {
                    *self.r.pick(&[UnOp::Neg, UnOp::Not, UnOp::BitNot])
                };
                let mut a = self.expr(d - 1);
                if self.cfg.sem_safe && op == UnOp::Neg {
                    // unary minus on bool / bit string / duration literals dies at a known panic site
                    if matches!(a.k, EK::Bool(_) | EK::BitStr(_) | EK::Timing(..)) {
                        a = self.int_lit();
                    }
                }
                self.e(EK::Unary(op, Box::new(a)))
            }
            6 => {
                let t = self.ty();
                let a = self.expr(d - 1);
                self.e(EK::Cast(t, Box::new(a)))
            }
            7 => {
                let n = self.name();
                let k = self.r.below(3);
                let args: Vec<E> = (0..k).map(|_| self.expr(d - 1)).collect();
                self.e(EK::Call(n, args))
            }
            8 => {
                let b = self.ident();
                let nix = self.r.range(1, 2);
                let ixs: Vec<MIndex> = (0..nix).map(|_| self.index(d - 1)).collect();
                self.e(EK::Index(Box::new(b), ixs))
            }
            9 => {
                // index applied to a non-identifier expression
                let b = match self.r.below(2) {
                    0 => {
                        let n = self.name();
                        let a = self.expr(d - 1);
                        self.e(EK::Call(n, vec![a]))
                    }
                    _ => {
                        let ops = self.binops();
                        let op = *self.r.pick(&ops);
                        let l = self.ident();
                        let r = self.ident();
                        self.e(EK::Binary(op, Box::new(l), Box::new(r)))
                    }
                };
                let ix = self.index(d - 1);
                let first = self.e(EK::Index(Box::new(b), vec![ix]));
                // chains of index operators on a non-identifier base nest one at a time
                let mut cur = first;
                while self.r.chance(1, 3) {
                    let ix = self.index(d - 1);
                    cur = self.e(EK::Index(Box::new(cur), vec![ix]));
                }
                cur
            }
            _ => {
                if self.r.chance(3, 5) {
                    self.ident()
                } else {
                    self.literal()
                }
            }
        }
    }

    fn index(&mut self, d: u32) -> MIndex {
        match self.r.below(5) {
            0 => {
                let k = self.r.range(1, 3);
                MIndex::Set((0..k).map(|_| self.int_lit()).collect())
            }
            1 => {
                let a = self.int_lit();
                let b = self.int_lit();
                let st = if self.r.bool() { Some(Box::new(self.int_lit())) } else { None };
                let r = self.e(EK::Range(Box::new(a), st, Box::new(b)));
                MIndex::List(vec![r])
            }
            2 => {
                let a = self.expr(d);
                let b = self.expr(d);
                MIndex::List(vec![a, b])
            }
            _ => MIndex::List(vec![self.expr(d)]),
        }
    }

    fn body(&mut self) -> Body {
        if self.r.chance(3, 5) {
            Body::Block(self.block())
        } else if self.depth + 1 < self.cfg.max_depth && self.r.chance(1, 4) {
            // a compound statement as the single-statement body (`while (a) while (b) { .. }`);
            // an inner `if` always carries its own else, so that a following else is unambiguous
            self.depth += 1;
            let c = self.expr(1);
            let s = match self.r.below(3) {
                0 => {
                    let b = Body::Block(self.block());
                    self.s(SK::While(c, b))
                }
                1 => {
                    let t = Body::Block(self.block());
                    let e = Body::Block(self.block());
                    self.s(SK::If(c, t, Some(e)))
                }
                _ => {
                    let t = self.ty();
                    let v = self.name();
                    let a = self.int_lit();
                    let b = self.int_lit();
                    let it = Iterable::Range(self.e(EK::Range(Box::new(a), None, Box::new(b))));
                    let body = Body::Block(self.block());
                    self.s(SK::For(t, v, it, body))
                }
            };
            self.depth -= 1;
            Body::Single(Box::new(s))
        } else {
            self.depth += 1;
            let s = self.simple_stmt();
            self.depth -= 1;
            Body::Single(Box::new(s))
        }
    }

    pub fn block(&mut self) -> Vec<S> {
        self.depth += 1;
        let n = self.r.below(4);
        let v: Vec<S> = (0..n).map(|_| self.stmt()).collect();
        self.depth -= 1;
        v
    }

    fn modifiers(&mut self) -> Vec<Modifier> {
        if !self.r.chance(1, 3) {
            return vec![];
        }
        let n = self.r.range(1, 4);
        (0..n)
            .map(|_| match self.r.below(4) {
                0 => Modifier::Inv,
                1 => Modifier::Pow(self.expr(1)),
                2 => Modifier::Ctrl(if self.r.bool() { Some(self.int_lit()) } else { None }),
                _ => Modifier::NegCtrl(if self.r.bool() { Some(self.int_lit()) } else { None }),
            })
            .collect()
    }

    pub fn gate_call(&mut self) -> S {
        let mods = self.modifiers();
        if self.r.chance(1, 8) {
            // (a controlled global phase is a recorded C04 finding: the safe profile keeps inv/pow only)
            let mods: Vec<Modifier> = if self.cfg.syn_safe { mods.into_iter().filter(|m| matches!(m, Modifier::Inv | Modifier::Pow(_))).collect() } else { mods };
            let a = self.expr(1);
            return self.s(SK::GPhase(mods, a));
        }
        let name = match self.r.below(4) {
            0 => self.name(),
            1 => "U".to_string(),
            _ => self.r.pick(&["h", "x", "cx", "rx", "rz", "ccx", "swap", "cp", "u3"]).to_string(),
        };
        let args = if self.r.chance(2, 5) {
            let k = self.r.range(1, 3);
            Some((0..k).map(|_| self.expr(1)).collect())
        } else {
            None
        };
        let nq = self.r.range(1, 3);
        let ops: Vec<E> = (0..nq).map(|_| self.operand()).collect();
        self.s(SK::GateCall(mods, name, args, ops))
    }

    pub fn assign(&mut self) -> S {
        let t = if self.r.chance(1, 4) {
            let b = self.ident();
            let ix = self.index(1);
            self.e(EK::Index(Box::new(b), vec![ix]))
        } else {
            self.ident()
        };
        let op = if !self.cfg.sem_safe && self.r.chance(1, 4) {
            let mut ops = vec![BinOp::Add, BinOp::Sub, BinOp::Mul, BinOp::Div, BinOp::Rem, BinOp::BitAnd, BinOp::BitOr, BinOp::BitXor, BinOp::Shl, BinOp::Shr];
            if !self.cfg.syn_safe {
                ops.push(BinOp::Pow);
            }
            Some(*self.r.pick(&ops))
        } else {
            None
        };
        let rhs = if self.r.chance(1, 6) {
            let q = self.operand();
            self.e(EK::Measure(Box::new(q)))
        } else {
            self.expr(self.cfg.expr_depth)
        };
        self.s(SK::Assign(t, op, rhs))
    }

    /// A statement that can be the single-statement body of if/while/for.
    pub fn simple_stmt(&mut self) -> S {
        match self.r.below(9) {
            0 | 1 => self.gate_call(),
            2 | 3 => self.assign(),
            4 => {
                let q = self.operand();
                self.s(SK::Reset(q))
            }
            5 => self.s(SK::Break),
            6 => self.s(SK::Continue),
            7 => {
                let e = if self.cfg.syn_safe { self.ident() } else { self.expr(2) };
                self.s(SK::ExprStmt(e))
            }
            _ => {
                let e = if self.r.bool() { Some(self.expr(1)) } else { None };
                self.s(SK::Return(e))
            }
        }
    }

    pub fn decl(&mut self) -> S {
        let c = self.r.chance(1, 4);
        let t = self.ty();
        let n = self.name();
        let init = if c || self.r.chance(3, 5) { Some(self.expr(self.cfg.expr_depth)) } else { None };
        self.s(SK::Decl(c, t, n, init))
    }

    pub fn stmt(&mut self) -> S {
        loop {
            let k = self.r.below(N_STMT_KINDS);
            if let Some(s) = self.stmt_k(k) {
                return s;
            }
        }
    }

    /// Statement of generator kind `k` (None when that kind is not available in this context/profile).
    pub fn stmt_k(&mut self, k: u64) -> Option<S> {
        let deep = self.depth >= self.cfg.max_depth;
        let top = self.depth == 0;
        {
            let s = match k {
                0..=3 => self.decl(),
                4 => {
                    let n = self.qname();
                    let sz = if self.r.bool() { Some(self.r.range(1, 4)) } else { None };
                    self.s(SK::Qubit(n, sz))
                }
                5 | 6 | 7 => self.gate_call(),
                8 | 9 => self.assign(),
                10 if !deep && !self.in_gate_or_def => {
                    let n = self.name();
                    let params = if self.r.bool() {
                        let k = self.r.range(if self.cfg.syn_safe { 1 } else { 1 }, 3);
                        Some((0..k).map(|_| self.name()).collect())
                    } else {
                        None
                    };
                    let nq = self.r.range(1, 3);
                    let qs: Vec<String> = (0..nq).map(|_| self.qname()).collect();
                    self.in_gate_or_def = true;
                    let b = self.block();
                    self.in_gate_or_def = false;
                    self.s(SK::Gate(n, params, qs, b))
                }
                11 if !deep && !self.in_gate_or_def => {
                    let n = self.name();
                    let k = self.r.below(3);
                    let ps: Vec<(Option<MTy>, String)> = (0..k)
                        .map(|_| {
                            if self.r.chance(1, 4) {
                                (None, self.qname())
                            } else {
                                (Some(self.ty()), self.name())
                            }
                        })
                        .collect();
                    let ret = if self.r.bool() { Some(self.ty()) } else { None };
                    self.in_gate_or_def = true;
                    let b = self.block();
                    self.in_gate_or_def = false;
                    self.s(SK::Def(n, ps, ret, b))
                }
                12 | 13 if !deep => {
                    let c = self.expr(2);
                    let t = self.body();
                    let e = match self.r.below(3) {
                        0 => None,
                        1 => Some(self.body()),
                        _ => {
                            // else if
                            let c2 = self.expr(1);
                            let t2 = self.body();
                            let e2 = if self.r.bool() { Some(self.body()) } else { None };
                            self.depth += 1;
                            let inner = self.s(SK::If(c2, t2, e2));
                            self.depth -= 1;
                            Some(Body::Single(Box::new(inner)))
                        }
                    };
                    self.s(SK::If(c, t, e))
                }
                14 if !deep => {
                    let c = self.expr(2);
                    let b = self.body();
                    self.s(SK::While(c, b))
                }
                15 if !deep => {
                    let t = self.ty();
                    let v = self.name();
                    let it = match self.r.below(3) {
                        0 => {
                            let a = self.int_lit();
                            let b = self.int_lit();
                            let st = if self.r.bool() { Some(Box::new(self.int_lit())) } else { None };
                            Iterable::Range(self.e(EK::Range(Box::new(a), st, Box::new(b))))
                        }
                        1 => {
                            let k = self.r.range(1, 3);
                            Iterable::Set((0..k).map(|_| self.int_lit()).collect())
                        }
                        _ => {
                            // an identifier, an indexed or sliced identifier, a call
                            let e = match self.r.below(if self.cfg.sem_safe { 2 } else { 5 }) {
                                0 | 1 => self.ident(),
                                2 => {
                                    let b = self.ident();
                                    let ix = self.index(1);
                                    self.e(EK::Index(Box::new(b), vec![ix]))
                                }
                                3 => {
                                    let b = self.ident();
                                    let a = self.int_lit();
                                    let c = self.int_lit();
                                    let r = self.e(EK::Range(Box::new(a), None, Box::new(c)));
                                    self.e(EK::Index(Box::new(b), vec![MIndex::List(vec![r])]))
                                }
                                _ => {
                                    let n = self.name();
                                    let a = self.ident();
                                    self.e(EK::Call(n, vec![a]))
                                }
                            };
                            Iterable::Expr(e)
                        }
                    };
                    // an identifier iterable followed by a single-statement body is ambiguous for
                    // this parser (`for int i in a g q;`): use a block there
                    let b = if matches!(it, Iterable::Expr(_)) { Body::Block(self.block()) } else { self.body() };
                    self.s(SK::For(t, v, it, b))
                }
                16 if !deep => {
                    let c = self.expr(1);
                    let nc = self.r.below(3);
                    let cases: Vec<(Vec<E>, Vec<S>)> = (0..nc)
                        .map(|_| {
                            let k = self.r.range(1, 2);
                            let vals: Vec<E> = (0..k).map(|_| self.int_lit()).collect();
                            (vals, self.block())
                        })
                        .collect();
                    let def = if nc == 0 || self.r.bool() { Some(self.block()) } else { None };
                    self.s(SK::Switch(c, cases, def))
                }
                17 if !self.cfg.sem_safe => {
                    let n = self.name();
                    let a = self.operand();
                    let rhs = if self.r.bool() {
                        let b = self.operand();
                        self.e(EK::Binary(BinOp::Concat, Box::new(a), Box::new(b)))
                    } else {
                        a
                    };
                    self.s(SK::Alias(n, rhs))
                }
                18 => {
                    let q = self.operand();
                    self.s(SK::Reset(q))
                }
                19 => {
                    let k = self.r.range(1, 3);
                    let ops: Vec<E> = (0..k).map(|_| self.operand()).collect();
                    self.s(SK::Barrier(ops))
                }
                20 => {
                    let d = match self.r.below(if self.cfg.sem_safe { 4 } else { 8 }) {
                        0 | 1 => {
                            let u = self.r.pick(&["ns", "us", "dt"]).to_string();
                            let n = self.r.below(100).to_string();
                            self.e(EK::Timing(n, u, false))
                        }
                        2 | 3 => self.ident(),
                        // designators that start with a float literal, or are arithmetic
                        4 => {
                            let u = self.r.pick(&["ns", "us", "ms", "s", "dt"]).to_string();
                            let n = self.r.pick(&["1.5", "0.5", "2.", "1e3", "2.5e-1"]).to_string();
                            self.e(EK::Timing(n, u, true))
                        }
                        5 => {
                            let f = self.r.pick(&["2.5", "0.5", "1e1"]).to_string();
                            let l = self.e(EK::Float(f));
                            let r = self.ident();
                            self.e(EK::Binary(BinOp::Mul, Box::new(l), Box::new(r)))
                        }
                        6 => {
                            let l = self.ident();
                            let u = self.r.pick(&["ns", "us", "dt"]).to_string();
                            let r = self.e(EK::Timing("1.5".to_string(), u, true));
                            self.e(EK::Binary(BinOp::Add, Box::new(l), Box::new(r)))
                        }
                        // (a bare float or bit string literal as the whole designator is rejected
                        // on purpose - "Literal type designator must be an integer" - not demanded)
                        _ => {
                            let l = self.ident();
                            let r = self.ident();
                            self.e(EK::Binary(BinOp::Sub, Box::new(l), Box::new(r)))
                        }
                    };
                    let q = self.operand();
                    self.s(SK::Delay(d, vec![q]))
                }
                21 => {
                    let q = self.operand();
                    self.s(SK::MeasureStmt(q))
                }
                22 => {
                    let e = if self.r.bool() { Some(self.expr(1)) } else { None };
                    self.s(SK::Return(e))
                }
                23 => {
                    let k = *self.r.pick(&[0, 1, 2]);
                    self.s(match k {
                        0 => SK::Break,
                        1 => SK::Continue,
                        _ => SK::End,
                    })
                }
                24 => {
                    let mut e = self.expr(self.cfg.expr_depth);
                    if self.cfg.syn_safe {
                        // an expression statement starting with `-` is swallowed by a preceding
                        // assignment statement (recorded C16 finding)
                        fn leftmost(e: &E) -> &E {
                            match &e.k {
                                EK::Binary(_, l, _) => leftmost(l),
                                EK::Index(b, _) => leftmost(b),
                                _ => e,
                            }
                        }
                        if matches!(leftmost(&e).k, EK::Unary(..)) {
                            e = self.ident();
                        }
                    }
                    self.s(SK::ExprStmt(e))
                }
                25 => {
                    let t = self.r.pick(&["some words here", "a b c", "x;y /* z */", "π"]).to_string();
                    self.s(SK::Pragma(t))
                }
                26 if top || !self.cfg.sem_safe => {
                    let t = self.r.pick(&["ann one two", "reversible", "a.b c"]).to_string();
                    self.s(SK::Annotation(t))
                }
                27 if top => self.s(SK::Include("stdgates.inc".to_string())),
                28 => {
                    let inp = self.r.bool();
                    let t = self.ty();
                    let n = self.name();
                    self.s(SK::Io(inp, t, n))
                }
                29 if !self.cfg.syn_safe => {
                    let q = self.operand();
                    let c = self.ident();
                    self.s(SK::MeasureArrow(q, c))
                }
                _ => return None,
            };
            Some(s)
        }
    }

    pub fn program(&mut self) -> Vec<S> {
        let n = self.r.range(1, self.cfg.max_stmts);
        let mut v: Vec<S> = Vec::new();
        if self.r.chance(1, 4) {
            let ver = *self.r.pick(&["3.0", "3", "3.1"]);
            v.push(self.s(SK::Version(ver.to_string())));
        }
        if self.r.chance(1, 3) {
            v.push(self.s(SK::Include("stdgates.inc".to_string())));
        }
        for _ in 0..n {
            let s = self.stmt();
            v.push(s);
        }
        // an annotation must be followed by a statement
        if matches!(v.last().map(|s| &s.k), Some(SK::Annotation(_))) {
            let s = self.decl();
            v.push(s);
        }
        v
    }
}
